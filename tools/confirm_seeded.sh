#!/bin/bash
# usage: confirm_seeded.sh <Cxx> <A|B>   -- confirms a sub-agent's seeded change in its scratch worktree /tmp/wt/<Cxx>
# (compiles + existing tests pass with the change; demo fails with it and passes without it), then stores it in /verif/seeded/.
id=$1; x=$2; wbase=${WT:-/tmp/wt}; wt=$wbase/$id; m=$wt/mutation_$x
export CARGO_NET_OFFLINE=true CARGO_TERM_COLOR=never
cd "$wt" || exit 2
git checkout -q -- . ; rm -f miniz_oxide/tests/demo_*.rs tests/demo_*.rs
[ -f "$m/patch.diff" ] || { echo "no patch"; exit 2; }
capi=0; grep -q "miniz_oxide_c_api" "$m/demo.rs" && capi=1
if [ $capi = 1 ]; then dst=tests/demo_$x.rs; pdir=$wt; else dst=miniz_oxide/tests/demo_$x.rs; pdir=$wt/miniz_oxide; fi
feat=""; grep -q "block_boundary\|BlockBoundary\|serde" "$m/demo.rs" && [ $capi = 0 ] && feat="--features block-boundary,serde"
# without the change: demo passes
cp "$m/demo.rs" "$dst"
(cd $pdir && cargo test --offline --test demo_$x $feat) >$wbase/$id.$x.base.log 2>&1; base=$?
git apply "$m/patch.diff" || { echo "patch does not apply"; exit 2; }
(cd $pdir && cargo test --offline --test demo_$x $feat) >$wbase/$id.$x.mut.log 2>&1; mut=$?
rm -f "$dst"
cargo test --offline --workspace --no-fail-fast >$wbase/$id.$x.suite.log 2>&1; suite=$?
git checkout -q -- .
echo "$id/$x: demo without change rc=$base (want 0); demo with change rc=$mut (want != 0); existing suite with change rc=$suite (want 0)"
if [ $base = 0 ] && [ $mut != 0 ] && [ $suite = 0 ]; then
  d=/verif/seeded/$id-$x; mkdir -p $d; cp "$m/patch.diff" "$m/demo.rs" $d/
  python3 - "$m/meta.json" "$d/meta.json" "$id" <<'PY'
import json,sys
try: m=json.load(open(sys.argv[1]))
except Exception as e: m={"note":"agent meta.json unreadable: %s"%e}
m["property"]=sys.argv[3]
m["confirmed_by_me"]="demo passes on the unchanged worktree, fails with patch.diff applied; `cargo test --workspace --offline` passes with the patch (tools/confirm_seeded.sh)"
json.dump(m,open(sys.argv[2],'w'),indent=1)
PY
  echo "CONFIRMED -> $d"
else
  echo "NOT CONFIRMED (see $wbase/$id.$x.*.log)"
fi
