#!/bin/bash
# usage: confirm_region.sh <R-id> <N>   -- round-6 (region-targeted) variant of confirm_seeded.sh: worktree $WT/<R-id>,
# mutation_<N>; the property id comes from the agent's meta.json; stored as /verif/seeded/<Cxx>-<R-id>.<N>
rid=$1; x=$2; wbase=${WT:-/tmp/wt6}; wt=$wbase/$rid; m=$wt/mutation_$x
export CARGO_NET_OFFLINE=true CARGO_TERM_COLOR=never
cd "$wt" || exit 2
git checkout -q -- . ; rm -f miniz_oxide/tests/demo_*.rs tests/demo_*.rs
[ -f "$m/patch.diff" ] || { echo "no patch"; exit 2; }
pid=$(python3 -c "import json,sys,re; m=json.load(open(sys.argv[1])); p=re.search(r'C\d\d', str(m.get('property',''))); print(p.group(0) if p else 'C00')" "$m/meta.json")
capi=0; grep -q "miniz_oxide_c_api" "$m/demo.rs" && capi=1
if [ $capi = 1 ]; then dst=tests/demo_$x.rs; pdir=$wt; else dst=miniz_oxide/tests/demo_$x.rs; pdir=$wt/miniz_oxide; fi
feat=""; grep -q "block_boundary\|BlockBoundary\|serde" "$m/demo.rs" && [ $capi = 0 ] && feat="--features block-boundary,serde"
cp "$m/demo.rs" "$dst"
(cd $pdir && cargo test --offline --test demo_$x $feat) >$wbase/$rid.$x.base.log 2>&1; base=$?
git apply "$m/patch.diff" || { echo "patch does not apply"; exit 2; }
(cd $pdir && cargo test --offline --test demo_$x $feat) >$wbase/$rid.$x.mut.log 2>&1; mut=$?
rm -f "$dst"
cargo test --offline --workspace --no-fail-fast >$wbase/$rid.$x.suite.log 2>&1; suite=$?
git checkout -q -- .
echo "$rid/$x ($pid): demo without change rc=$base (want 0); with change rc=$mut (want != 0); existing suite with change rc=$suite (want 0)"
if [ $base = 0 ] && [ $mut != 0 ] && [ $suite = 0 ]; then
  d=/verif/seeded/$pid-$rid.$x; mkdir -p $d; cp "$m/patch.diff" "$m/demo.rs" $d/
  python3 - "$m/meta.json" "$d/meta.json" "$pid" <<'PY'
import json,sys
try: m=json.load(open(sys.argv[1]))
except Exception as e: m={"note":"agent meta.json unreadable: %s"%e}
m["property"]=sys.argv[3]
m["confirmed_by_me"]="demo passes on the unchanged worktree, fails with patch.diff applied; `cargo test --workspace --offline` passes with the patch (tools/confirm_region.sh)"
json.dump(m,open(sys.argv[2],'w'),indent=1)
PY
  echo "CONFIRMED -> $d"
else
  echo "NOT CONFIRMED (see $wbase/$rid.$x.*.log)"
fi
