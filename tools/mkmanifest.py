#!/usr/bin/env python3
"""Regenerates /verif/MANIFEST.json from the table below (keeps it valid at all times)."""
import json, subprocess, os
V = '/verif'
ids = [json.loads(l)['id'] for l in open(f'{V}/properties.jsonl')]

def repo_commits(prefix):
    out = subprocess.run(['git', '-C', '/repo', 'log', '--format=%h %s'], capture_output=True, text=True).stdout.splitlines()
    return [l.split()[0] for l in out if l.split(' ', 1)[1].startswith(prefix)]

# id -> (technique, level text, level note, design ref)
T = {
 'C01': ('property-based testing (proptest): generated inputs x levels, round-trip + differential oracle (independent reference inflater, system zlib)',
         'Generated-input search: every case is a round trip checked by the crate AND by an independent RFC 1951/1950 reference inflater (valid, same bytes, nothing after the stream), with zlib as second opinion and levels > 10 compared byte-for-byte with level 10. Sizes are concentrated on the thresholds the property names. Exploration is the right level: the quantifier is over all byte strings; nothing finite to exhaust.',
         'Trusts the reference inflater in /verif/engine/src/oracle (self-checked against the stream grammar and system zlib at the start of C03/C04 runs). No absence claim.', '6/C01'),
 'C02': ('property-based testing (proptest): generated (input, configuration, call schedule) triples through three drivers; round-trip via reference inflater + per-call invariants',
         'Generated schedules (chunk sizes incl. empty, output buffers from 1 byte to beyond the 85196 direct-write threshold, all 8 flush modes with Finish sticky) drive core::compress, compress_to_output and stream::deflate in release and debug-assertion builds; per-call counts, status legality and a call-count termination bound are checked and the concatenated output must be exactly one valid stream of the input.',
         'Reference inflater is the trusted decoder. "Legal schedule" = Finish sticky. Shrunk failing schedules are replay files.', '6/C02'),
 'C03': ('property-based testing with a grammar-based generator of valid DEFLATE/zlib streams (valid by construction) + differential oracles (token expansion, reference inflater, system zlib)',
         'Streams are constructed bit by bit from an AST (random complete Huffman codes up to 15 bits, one-symbol codes, all legal code-length packings, empty/stored blocks at every alignment, len 258 both ways, dist 32768, overlaps) so constructs the bundled compressor never emits are common; each stream goes through ~10 decoder entry points under generated schedules. Evidence lists which decoder states were reached as suspension points.',
         'Plaintext = token expansion by the grammar; cross-checked by the reference inflater and zlib in a self-check whose failure is exit 2, never a violation.', '6/C03'),
 'C04': ('property-based testing: targeted spec-violation directives in a stream grammar + mutation of valid streams + exhaustive prefixes; differential oracle (reference inflater, flat and ring semantics)',
         'Soundness of every completion report (flat, ring with actual buffer contents, vector functions, inflate()) against an independent reference; 27 kinds of single targeted violations so each of the decoder\'s 10 failure states is reached deliberately (evidence lists them); every proper prefix of short valid streams is decoded with and without more-input announced.',
         'Only what the property states is asserted (completion => valid; prefix => needs-more-input / cannot-make-progress). zlib disagreement buckets are excluded and counted.', '6/C04'),
 'C05': ('stateful property-based testing (operation sequences on one decoder object: calls with arbitrary geometry/flags/budgets, init, clone, serde round trips) with invariants after every step; watchdog for non-termination',
         'Histories on a single DecompressorOxide with arbitrary flag words, slice lengths (incl. 0, 1, non-powers of two, > 32 KiB), out_pos up to len+1 and inputs from valid/invalid/random sources; after each call: no panic (release and debug assertions), counters within bounds, BadParam iff geometry unusable and then the serialised image unchanged, failure sticky until init(). Workers are separate processes so aborts/hangs are attributed and confirmed in isolation.',
         'States reachable by real calls/clone/serde round trips (no forged serde images). A hang is only reported after an isolated 600 s confirmation; otherwise exit 2.', '6/C05'),
 'C06': ('property-based testing: valid stream + arbitrary trailing bytes x chunkings x entry points; oracle = exact encoded length from the grammar bit writer / reference inflater',
         'Encoded length is computed independently (bit writer, reference inflater) and compared with the consumed totals of the flat decoder, 32 KiB ring, inflate(), mz_inflate (total_in and next_in) and tinfl_decompress, for final blocks ending at all 8 bit offsets and read-ahead tiers; zlib streams also with the checksum ignored and with the input cut inside the trailer.', 'Trailing bytes include look-alike headers. Reference inflater trusted.', '6/C06'),
 'C07': ('property-based testing, metamorphic relation (one-call result == result under any input partition / output budget), exhaustive over every cut point for short inputs',
         'For valid and invalid inputs the (output, status, consumed) triple of a maximal-call run is compared with every single cut point, byte-wise feeding, small budgets, random partitions and ring sizes, plus exact-size output slices with the input cut inside the zlib trailer (core call and decompress_slice_iter_to_slice), in release and debug builds; evidence lists the (state, status) suspension points reached.', 'The oracle is the crate itself under a different schedule plus the reference plaintext for valid streams; for inflate() on invalid input only verdict and prefix relation are compared (pending window data is dropped on error as in miniz).', '6/C07'),
 'C08': ('property-based testing with canary-filled output buffers compared byte-for-byte outside the granted region after every call; limit functions checked against the reference plaintext',
         'Every call of generated schedules (budgets concentrated on small values so calls end inside match copies, flat slices smaller than the output, rings 2^0..2^16, non-zero start positions) is followed by a full comparison of the slice outside [out_pos, out_pos+written); status truthfulness and driver termination bound are asserted; limit functions at 0, n-1, n, n+1, 2n, huge.', 'Reference inflater supplies plaintext.', '6/C08'),
 'C10': ('property-based testing: token-level inspection of compressor output by an independent reference decoder + metamorphic compression-ratio relation',
         'The emitted bytes are parsed by the reference inflater into a token trace (block types, code lengths, (length, distance) pairs) which is checked against the requested level/strategy; X||X and long-run relations check that matching is actually exploited.', 'Reference inflater trusted. Partial-flush markers (empty fixed blocks) are not data blocks.', '6/C10'),
 'C11': ('property-based testing with inputs built to contain repeats just beyond each declarable window; oracle = reference inflater in declared-window mode + decode in a ring of exactly the declared size + zlib trusting the header',
         'with_params over window_bits 0..16 x levels x strategies; the header window is compared with every distance in the reference trace and the stream is decoded with exactly the declared window.', 'zlib is a second opinion only.', '6/C11'),
 'C12': ('property-based testing over schedules rich in mid-stream flushes; oracle = reference inflater run on exactly the bytes emitted so far, and on the remainder after a full flush in flat mode',
         'At every flush return satisfying the property\'s side conditions the emitted prefix must decode (Incomplete, never Invalid) to exactly the input supplied so far, Sync/Full must end in 00 00 FF FF byte-aligned, the remainder after Full must decode standalone; NoSync+Sync == Sync byte-for-byte. Full flushes drained over several calls are covered by a dedicated family and by a token-trace oracle (no match after a Full-flush marker reaches back across it).', 'Reference inflater trusted.', '6/C12'),
 'C13': ('stateful / model-based testing: bounded exhaustive DFS over call sequences (cloning InflateState per node) + random histories, checked against an executable protocol relation and reference-inflater ground truth',
         'All call sequences of length <= 3 (quick) / 4 (thorough) over a 64-letter alphabet from 13 fixed streams are enumerated, plus random histories up to 200 calls and the two usual driver loops; the relation encodes only the clauses the property states.', 'Ground truth = reference inflater with zeroed 32 KiB ring semantics. Clauses the property leaves open stay open (documented in DESIGN).', '6/C13'),
 'C14': ('stateful / model-based testing: bounded exhaustive DFS over call sequences (cloning the compressor per node) + random histories with a Finish loop, checked against an executable protocol relation',
         'All call sequences of length <= 3 over a 48-letter alphabet from 36 roots (depth 2 from 3 large roots), random histories and a bounded Finish loop; refused empty-output calls are compared behaviourally with a clone that never saw them; StreamEnd requires a complete valid stream per the reference inflater.', 'Once Finish has been requested only the unconsumed remainder may be re-offered (zlib\'s rule).', '6/C14'),
 'C09': ('property-based testing + exhaustive enumeration of all 65536 zlib headers x buffer geometries; definitional Adler-32 oracle; corruption of trailers/bodies under generated schedules',
         'The complete header space is decoded flat, in rings of 2^0..2^16, through decompress_to_vec_zlib and inflate() and compared with the four RFC 1950 rules plus the ring-window rule; emitted headers/trailers are checked for every generated configuration and schedule; every kind of trailer/body corruption must yield a checksum mismatch unless the caller asked to ignore it.', 'adler32_ref is the definition (two sums mod 65521 after every byte).', '6/C09'),
 'C15': ('property-based testing with adversarial data classes, exhaustive over lengths 0..300 x 7 classes x 12 levels x 5 strategies, plus block-size thresholds up to 1 MiB / 8 MiB',
         'The bound is attacked where expansion is largest: incompressible and near-incompressible data (9-bit literals, sparse short repeats that keep a block open until it has outgrown the window) at every small length and around every block-size threshold; mz_deflate(MZ_FINISH), CompressorOxide and mz_compress2 with a bound-sized destination.', 'Configuration space = mz_deflateInit2(level, 8, 15, 9, strategy).', '6/C15'),
 'C16': ('property-based testing: definitional checksums as oracle, arbitrary splits and start values, three builds (scalar release, debug assertions, simd feature); running checksums checked after every call',
         'mz_adler32_oxide / mz_crc32_oxide / mz_adler32 / mz_crc32 chained over arbitrary pieces vs the definitions on lengths around the SIMD lane sizes, 5552 and 64 KiB with all-0xFF worst cases; CompressorOxide::adler32, DecompressorOxide::adler32 and mz_stream.adler after every call of generated schedules.', 'Definitions are known-answer tested and compared with zlib in the self-check. The simd build is a second binary (target-simd).', '6/C16'),
 'C17': ('differential property-based testing (C function vs corresponding Rust call on the same schedule) with guard-page fault injection for out-of-range accesses, enumerated misuse cases, process-level crash attribution',
         'All exported functions; every buffer handed to C abuts a PROT_NONE page (end- or start-aligned) so any out-of-range access kills the worker, which the orchestrator attributes via the journal and confirms in isolation; accounting identities around every stream call; object histories (mz_deflateReset after complete / partial / empty streams, repeated tdefl_init with and without callback); 27 misuse cases and parameter sweeps must return error codes; release and debug-assertion builds (the latter turns UB-by-precondition into aborts).', 'Null decompressor objects / null size pointers of tinfl_decompress are outside the property\'s list and not asserted.', '6/C17'),
 'C18': ('stateful property-based testing: generated history -> reset variant -> workload, compared with a fresh object (differential), plus twice-fresh determinism',
         'CompressorOxide::reset, InflateState reset policies (Min/Zero/Full/reset), DecompressorOxide::init and mz_deflateReset after histories that abandon streams mid-way, hit errors or change levels; byte-identical output and identical per-call results vs a fresh object.', 'MinReset workloads exclude streams that reference data before their own start (documented contract); excluded cases are counted.', '6/C18'),
 'C19': ('property-based testing: snapshot/restore (clone, rmp-serde, serde_json, block-boundary record) injected at generated inter-call points, compared with the uninterrupted run; boundary protocol checked against the reference block trace',
         'Per-call traces, output and checksum verdict after continuing from a clone / serialise-deserialise copy must equal the uninterrupted run; with stop-at-block-boundary every stop is checked against the reference inflater\'s block ends (count, position, num_bits, bit_buf) and the decoder is rebuilt from the boundary record with everything older than 32 KiB scrubbed.', 'Reference inflater supplies block end positions.', '6/C19'),
 'C20': ('exhaustive enumeration of the feature lattice (configurations as generated inputs) with the compiler/linker as oracle; compile-time trait assertions; no-allocator link probe; lexical scan',
         'This property is about program text, so there is no behaviour to run; what this family can still do is enumerate the finite configuration space completely: 32 feature subsets (x 4 targets in the thorough tier) built with -F unsafe_code, a no_std/no-allocator staticlib probe, Send+Sync+Clone+\'static assertions evaluated in each of the 32 feature sets, and a token scan for cfg arms no available target compiles.', 'rustc\'s unsafe_code lint is the arbiter; wasm32 / rustc-dep-of-std arms are only scanned lexically.', '6/C20'),
}

checks = []
for i in ids:
    if i not in T: continue
    tech, text, note, ref = T[i]
    cat = 'exploration'
    eng = 'c20-config-lattice' if i == 'C20' else 'mzv'
    checks.append({
        'property_id': i,
        'quick_cmd': f'./check {i} quick',
        'thorough_cmd': f'./check {i} thorough',
        'evidence_file': f'/verif/evidence/{i}.json',
        'replay_cmd_template': f'./check {i} --replay {{path}}',
        'engine': eng,
        'level_claimed': {'category': cat, 'text': text, 'design_ref': f'DESIGN.md section {ref}'},
        'level_note': note,
        'technique': tech,
    })
na = [{'property_id': i, 'reason': 'check not yet built in this revision (work in progress; see DESIGN.md section 6)'} for i in ids if i not in T]
m = {
 'version': 1,
 'setup_cmd': 'cd /verif && ./check --build',
 'hooks': {'guard': 'cargo feature `verif-hooks` of the miniz_oxide crate (off by default)',
           'enable': 'the harness crate /verif/engine depends on /repo/miniz_oxide by path with features std,serde,block-boundary,verif-hooks (and on /repo = miniz_oxide_c_api by path)',
           'baseline_off_cmd': 'cd /repo && cargo test --workspace --no-fail-fast --offline',
           'source_commits': repo_commits('verif hook'),
           'add_only': True},
 'engines': [{'name': 'c20-config-lattice', 'path': '/verif/c20', 'serves_properties': ['C20'], 'kind_free_text': 'python driver enumerating cargo feature subsets x targets with -F unsafe_code, plus two probe crates and a token scanner'}, {'name': 'mzv', 'path': '/verif/engine', 'serves_properties': [c['property_id'] for c in checks if c['property_id'] != 'C20'], 'kind_free_text': 'Rust; proptest TestRunner with fixed seeds in 16 worker processes, own RFC1951 reference inflater + stream grammar as oracles, system zlib as second opinion; orchestrator merges worker reports into evidence'}],
 'checks': checks,
 'notes': 'Every check rebuilds the engine against /repo\'s working tree (./check runs cargo build first). VERIF_SEED selects the PRNG seed. Exit 0 held / 1 VIOLATION / 2 machinery trouble. Fix commits in /repo: ' + ', '.join(repo_commits('fix:')),
 'not_applicable': na,
}
json.dump(m, open(f'{V}/MANIFEST.json', 'w'), indent=1)
print(len(checks), 'checks,', len(na), 'not_applicable')
