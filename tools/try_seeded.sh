#!/bin/bash
# usage: try_seeded.sh <patch.diff> <tier> <Cxx> [Cyy ...]
# Applies a seeded change to /repo, runs the given checks, and ALWAYS restores /repo afterwards.
patch="$(readlink -f "$1")"; tier="$2"; shift 2
cd /verif || exit 2
if ! git -C /repo diff --quiet; then echo "refusing: /repo has uncommitted changes"; exit 2; fi
git -C /repo apply "$patch" || { echo "patch does not apply"; exit 2; }
trap 'git -C /repo checkout -- . ; git -C /repo clean -fdq -- miniz_oxide/src src >/dev/null 2>&1' EXIT
for id in "$@"; do
  out=$(./check "$id" "$tier" 2>&1); rc=$?
  v=$(echo "$out" | grep -c '^VIOLATION')
  echo "== $id rc=$rc violations=$v :: $(echo "$out" | grep -E '^violation sig' | head -3 | cut -c1-220)"
  [ $rc -eq 2 ] && echo "$out" | tail -5
done
