// Probe for system zlib (second-opinion oracle). If absent, zlib cross-checks are skipped.
fn main() {
    println!("cargo:rerun-if-changed=build.rs");
    println!("cargo:rustc-check-cfg=cfg(have_zlib)");
    let cands = ["/usr/lib/x86_64-linux-gnu/libz.so", "/usr/lib/x86_64-linux-gnu/libz.a", "/usr/lib/libz.so", "/lib/x86_64-linux-gnu/libz.so.1"];
    if cands.iter().any(|p| std::path::Path::new(p).exists()) {
        println!("cargo:rustc-cfg=have_zlib");
        println!("cargo:rustc-link-lib=z");
    }
}
