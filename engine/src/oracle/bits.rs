//! LSB-first bit writer / reader used by the stream grammar and the reference inflater.
//! Deliberately naive: one bit at a time.

#[derive(Default, Clone)]
pub struct BitWriter {
    pub bytes: Vec<u8>,
    /// number of bits already used in the last byte (0 = byte aligned)
    pub nbits: u8,
}

impl BitWriter {
    pub fn new() -> Self {
        Self::default()
    }
    pub fn bit(&mut self, b: u32) {
        if self.nbits == 0 {
            self.bytes.push(0);
        }
        if b & 1 != 0 {
            *self.bytes.last_mut().unwrap() |= 1 << self.nbits;
        }
        self.nbits = (self.nbits + 1) & 7;
    }
    /// value LSB first (used for everything except Huffman codes)
    pub fn bits(&mut self, v: u32, n: u32) {
        for i in 0..n {
            self.bit(v >> i);
        }
    }
    /// Huffman code: most significant bit of the code first
    pub fn code(&mut self, code: u32, len: u32) {
        for i in (0..len).rev() {
            self.bit(code >> i);
        }
    }
    /// pad to a byte boundary with the low bits of `fill`
    pub fn align(&mut self, fill: u32) {
        let mut i = 0;
        while self.nbits != 0 {
            self.bit(fill >> i);
            i += 1;
        }
    }
    pub fn byte(&mut self, b: u8) {
        debug_assert!(self.nbits == 0);
        self.bytes.push(b);
    }
    pub fn bit_len(&self) -> usize {
        if self.nbits == 0 {
            self.bytes.len() * 8
        } else {
            (self.bytes.len() - 1) * 8 + self.nbits as usize
        }
    }
}

pub struct BitReader<'a> {
    pub data: &'a [u8],
    pub pos: usize, // in bits
}

impl<'a> BitReader<'a> {
    pub fn new(data: &'a [u8]) -> Self {
        BitReader { data, pos: 0 }
    }
    pub fn bit(&mut self) -> Option<u32> {
        let byte = self.pos >> 3;
        if byte >= self.data.len() {
            return None;
        }
        let b = (self.data[byte] >> (self.pos & 7)) & 1;
        self.pos += 1;
        Some(b as u32)
    }
    pub fn bits(&mut self, n: u32) -> Option<u32> {
        let mut v = 0;
        for i in 0..n {
            v |= self.bit()? << i;
        }
        Some(v)
    }
    pub fn align(&mut self) {
        self.pos = (self.pos + 7) & !7;
    }
    pub fn byte_pos(&self) -> usize {
        (self.pos + 7) >> 3
    }
}
