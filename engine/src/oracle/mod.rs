pub mod bits;
pub mod inflate;
pub mod selfcheck;
pub mod streamgen;
pub mod sums;
pub mod zlibffi;
