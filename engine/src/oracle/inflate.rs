//! Reference RFC 1951 / RFC 1950 decoder, in the style of zlib's `puff`: one bit at a time,
//! canonical-code arithmetic only, base values computed from the RFC's formulas.
//! Shares no code, constant table or data layout with miniz_oxide.

use super::bits::BitReader;
use super::sums::adler32_ref;
use serde::{Deserialize, Serialize};

#[derive(Clone, Copy, Debug, PartialEq, Eq, Hash, Serialize, Deserialize)]
pub enum Rule {
    ZlibCm,
    ZlibCinfo,
    ZlibFdict,
    ZlibFcheck,
    /// ring buffer smaller than the window declared in the zlib header
    ZlibWindowVsRing,
    BlockType3,
    StoredLen,
    Hlit,
    Hdist,
    ClcOversubscribed,
    ClcIncomplete,
    Rep16First,
    RepOverrun,
    LitOversubscribed,
    LitIncomplete,
    DistOversubscribed,
    DistIncomplete,
    /// literal/length symbol 286/287, or a bit pattern the code does not assign
    BadLitSym,
    /// distance symbol 30/31, or a bit pattern the code does not assign (incl. "no distance code")
    BadDistSym,
    /// flat: reaches before the first output byte; ring: larger than the ring
    DistTooFar,
    /// distance larger than the window declared in the zlib header (only in declared-window mode)
    DistBeyondDeclared,
    Adler,
}

#[derive(Clone, Debug, PartialEq, Eq)]
pub enum Verdict {
    Valid,
    Invalid(Rule),
    Incomplete,
    /// output exceeded the cap given in the options; nothing is concluded
    TooBig,
}

#[derive(Clone, Copy, Debug, PartialEq, Eq, Serialize, Deserialize)]
pub enum Tok {
    Lit(u8),
    Match { len: u16, dist: u32 },
}

#[derive(Clone, Debug, Default)]
pub struct BlockTrace {
    pub bfinal: bool,
    pub btype: u8,
    pub bit_off: usize,
    /// bit offset (mod 8) at which the 3 header bits started
    pub hdr_align: u8,
    pub stored_len: usize,
    pub hlit: usize,
    pub hdist: usize,
    pub hclen: usize,
    pub lit_lens: Vec<u8>,
    pub dist_lens: Vec<u8>,
    pub clc_lens: Vec<u8>,
    pub n_lit: usize,
    pub n_match: usize,
    pub max_dist: u32,
    pub min_len: u16,
    pub max_len: u16,
    /// longest literal/length or distance code actually used by a token
    pub max_used_code_len: u8,
    pub rep_crossed_boundary: bool,
    pub overlap: bool,
    pub complete: bool,
    pub tokens: Vec<Tok>,
    /// output length when the block started
    pub out_start: usize,
    pub out_len: usize,
    /// bit position just after the block's last bit
    pub end_bit: usize,
}

#[derive(Clone, Copy, Debug)]
pub enum WindowMode<'a> {
    Flat,
    /// `init` is the ring's initial contents (len = ring size, power of two), `start` the first out_pos
    Ring { init: &'a [u8], start: usize },
}

#[derive(Clone, Copy, Debug)]
pub struct Opts<'a> {
    pub zlib: bool,
    pub window: WindowMode<'a>,
    /// enforce dist <= 2^(CINFO+8) (C11)
    pub enforce_declared_window: bool,
    pub ignore_adler: bool,
    pub keep_tokens: bool,
    pub max_out: usize,
}

impl<'a> Opts<'a> {
    pub fn raw() -> Self {
        Opts { zlib: false, window: WindowMode::Flat, enforce_declared_window: false, ignore_adler: false, keep_tokens: false, max_out: 256 << 20 }
    }
    pub fn zlib() -> Self {
        Opts { zlib: true, ..Self::raw() }
    }
    pub fn fmt(zlib: bool) -> Self {
        Opts { zlib, ..Self::raw() }
    }
    pub fn tokens(mut self) -> Self {
        self.keep_tokens = true;
        self
    }
}

#[derive(Clone, Debug)]
pub struct Inflated {
    pub verdict: Verdict,
    /// exact encoded length in bytes (meaningful when Valid; otherwise bytes touched so far)
    pub consumed: usize,
    /// bit position where decoding stopped
    pub bit_pos: usize,
    pub out: Vec<u8>,
    pub blocks: Vec<BlockTrace>,
    pub header: Option<(u8, u8)>,
    pub trailer: Option<u32>,
    /// Incomplete exactly between two blocks (all bits of the previous block read, next header not started)
    pub at_block_boundary: bool,
    /// the deflate data itself ended properly (final block complete); only the trailer may be missing/wrong
    pub deflate_done: bool,
    /// byte length of header + deflate data (without trailer), valid when deflate_done
    pub deflate_end_byte: usize,
}

impl Inflated {
    pub fn is_valid(&self) -> bool {
        self.verdict == Verdict::Valid
    }
    pub fn max_dist(&self) -> u32 {
        self.blocks.iter().map(|b| b.max_dist).max().unwrap_or(0)
    }
    pub fn n_match(&self) -> usize {
        self.blocks.iter().map(|b| b.n_match).sum()
    }
}

struct Huff {
    count: [u16; 16],
    symbol: Vec<u16>,
    max_len: u32,
}

enum DecErr {
    Eof,
    Unassigned,
}

/// returns (table, left) where left > 0: incomplete, left < 0: over-subscribed
fn build(lens: &[u8]) -> (Huff, i32) {
    let mut count = [0u16; 16];
    for &l in lens {
        count[l as usize] += 1;
    }
    let mut max_len = 0;
    for l in 1..16 {
        if count[l] > 0 {
            max_len = l as u32;
        }
    }
    let mut left: i32 = 1;
    let mut over = false;
    for l in 1..16 {
        left <<= 1;
        left -= count[l] as i32;
        if left < 0 {
            over = true;
            break;
        }
    }
    let mut offs = [0u16; 16];
    for l in 1..15 {
        offs[l + 1] = offs[l] + count[l];
    }
    let mut symbol = vec![0u16; lens.len()];
    for (s, &l) in lens.iter().enumerate() {
        if l != 0 {
            symbol[offs[l as usize] as usize] = s as u16;
            offs[l as usize] += 1;
        }
    }
    (Huff { count, symbol, max_len }, if over { -1 } else { left })
}

impl Huff {
    fn decode(&self, br: &mut BitReader) -> Result<(u16, u8), DecErr> {
        if self.max_len == 0 {
            return Err(DecErr::Unassigned);
        }
        let mut code: i32 = 0;
        let mut first: i32 = 0;
        let mut index: i32 = 0;
        for len in 1..=self.max_len {
            code |= br.bit().ok_or(DecErr::Eof)? as i32;
            let count = self.count[len as usize] as i32;
            if code - count < first {
                return Ok((self.symbol[(index + (code - first)) as usize], len as u8));
            }
            index += count;
            first += count;
            first <<= 1;
            code <<= 1;
        }
        Err(DecErr::Unassigned)
    }
}

/// RFC 1951 3.2.5: extra bits and base of length symbol 257+k
fn len_extra(k: u32) -> u32 {
    if k < 4 || k == 28 {
        0
    } else {
        k / 4 - 1
    }
}
fn len_base(k: u32) -> u32 {
    if k == 28 {
        return 258;
    }
    let mut b = 3;
    for j in 0..k {
        b += 1 << len_extra(j);
    }
    b
}
fn dist_extra(k: u32) -> u32 {
    if k < 2 {
        0
    } else {
        k / 2 - 1
    }
}
fn dist_base(k: u32) -> u32 {
    let mut b = 1;
    for j in 0..k {
        b += 1 << dist_extra(j);
    }
    b
}

const CLC_ORDER: [usize; 19] = [16, 17, 18, 0, 8, 7, 9, 6, 10, 5, 11, 4, 12, 3, 13, 2, 14, 1, 15];

pub fn inflate(data: &[u8], opts: &Opts) -> Inflated {
    let mut br = BitReader::new(data);
    let mut r = Inflated {
        verdict: Verdict::Incomplete,
        consumed: 0,
        bit_pos: 0,
        out: Vec::new(),
        blocks: Vec::new(),
        header: None,
        trailer: None,
        at_block_boundary: false,
        deflate_done: false,
        deflate_end_byte: 0,
    };
    let v = run(&mut br, opts, &mut r);
    r.verdict = v;
    r.bit_pos = br.pos;
    if r.verdict != Verdict::Valid {
        r.consumed = br.byte_pos();
    }
    r
}

fn run(br: &mut BitReader, opts: &Opts, r: &mut Inflated) -> Verdict {
    use Verdict::*;
    let mut declared: u32 = 32768;
    let ring_size = match opts.window {
        WindowMode::Flat => usize::MAX,
        WindowMode::Ring { init, .. } => init.len(),
    };
    if opts.zlib {
        let cmf = match br.bits(8) {
            Some(v) => v,
            None => return Incomplete,
        };
        let flg = match br.bits(8) {
            Some(v) => v,
            None => return Incomplete,
        };
        r.header = Some((cmf as u8, flg as u8));
        if cmf & 15 != 8 {
            return Invalid(Rule::ZlibCm);
        }
        if cmf >> 4 > 7 {
            return Invalid(Rule::ZlibCinfo);
        }
        if flg & 0x20 != 0 {
            return Invalid(Rule::ZlibFdict);
        }
        if (cmf * 256 + flg) % 31 != 0 {
            return Invalid(Rule::ZlibFcheck);
        }
        declared = 1 << ((cmf >> 4) + 8);
        if ring_size != usize::MAX && (declared as usize) > ring_size {
            return Invalid(Rule::ZlibWindowVsRing);
        }
    }
    loop {
        r.at_block_boundary = true;
        let start_bit = br.pos;
        let bfinal = match br.bit() {
            Some(b) => b,
            None => return Incomplete,
        };
        r.at_block_boundary = false;
        let btype = match br.bits(2) {
            Some(b) => b,
            None => return Incomplete,
        };
        let mut bt = BlockTrace { bfinal: bfinal != 0, btype: btype as u8, bit_off: start_bit, hdr_align: (start_bit & 7) as u8, out_start: r.out.len(), min_len: u16::MAX, ..Default::default() };
        let v = match btype {
            0 => stored(br, opts, r, &mut bt),
            1 => {
                let mut ll = vec![8u8; 288];
                for l in ll.iter_mut().take(256).skip(144) {
                    *l = 9;
                }
                for l in ll.iter_mut().take(280).skip(256) {
                    *l = 7;
                }
                let dl = vec![5u8; 32];
                let (lh, _) = build(&ll);
                let (dh, _) = build(&dl);
                codes(br, opts, r, &mut bt, &lh, &dh, declared, ring_size)
            }
            2 => dynamic(br, opts, r, &mut bt, declared, ring_size),
            _ => Some(Invalid(Rule::BlockType3)),
        };
        bt.out_len = r.out.len() - bt.out_start;
        bt.end_bit = br.pos;
        if bt.min_len == u16::MAX {
            bt.min_len = 0;
        }
        bt.complete = v.is_none();
        r.blocks.push(bt);
        if let Some(v) = v {
            return v;
        }
        if bfinal != 0 {
            break;
        }
    }
    br.align();
    r.deflate_done = true;
    r.deflate_end_byte = br.pos >> 3;
    if opts.zlib {
        let mut t: u32 = 0;
        for _ in 0..4 {
            match br.bits(8) {
                Some(b) => t = (t << 8) | b,
                None => return Incomplete,
            }
        }
        r.trailer = Some(t);
        if !opts.ignore_adler && t != adler32_ref(1, &r.out) {
            r.consumed = br.pos >> 3;
            return Invalid(Rule::Adler);
        }
    }
    r.consumed = br.pos >> 3;
    Valid
}

fn stored(br: &mut BitReader, opts: &Opts, r: &mut Inflated, bt: &mut BlockTrace) -> Option<Verdict> {
    br.align();
    let len = match br.bits(16) {
        Some(v) => v,
        None => return Some(Verdict::Incomplete),
    };
    let nlen = match br.bits(16) {
        Some(v) => v,
        None => return Some(Verdict::Incomplete),
    };
    if len != (!nlen & 0xffff) {
        return Some(Verdict::Invalid(Rule::StoredLen));
    }
    bt.stored_len = len as usize;
    for _ in 0..len {
        match br.bits(8) {
            Some(b) => {
                if r.out.len() >= opts.max_out {
                    return Some(Verdict::TooBig);
                }
                r.out.push(b as u8)
            }
            None => return Some(Verdict::Incomplete),
        }
    }
    None
}

fn dynamic(br: &mut BitReader, opts: &Opts, r: &mut Inflated, bt: &mut BlockTrace, declared: u32, ring_size: usize) -> Option<Verdict> {
    use Verdict::*;
    macro_rules! need {
        ($e:expr) => {
            match $e {
                Some(v) => v,
                None => return Some(Incomplete),
            }
        };
    }
    let hlit = need!(br.bits(5)) as usize + 257;
    let hdist = need!(br.bits(5)) as usize + 1;
    let hclen = need!(br.bits(4)) as usize + 4;
    bt.hlit = hlit;
    bt.hdist = hdist;
    bt.hclen = hclen;
    if hlit > 286 {
        return Some(Invalid(Rule::Hlit));
    }
    if hdist > 30 {
        return Some(Invalid(Rule::Hdist));
    }
    let mut clc = [0u8; 19];
    for &o in CLC_ORDER.iter().take(hclen) {
        clc[o] = need!(br.bits(3)) as u8;
    }
    bt.clc_lens = clc.to_vec();
    let (ch, left) = build(&clc);
    if left < 0 {
        return Some(Invalid(Rule::ClcOversubscribed));
    }
    if left > 0 {
        return Some(Invalid(Rule::ClcIncomplete));
    }
    let total = hlit + hdist;
    let mut lens: Vec<u8> = Vec::with_capacity(total);
    while lens.len() < total {
        let (sym, _) = match ch.decode(br) {
            Ok(s) => s,
            Err(DecErr::Eof) => return Some(Incomplete),
            // cannot happen for a complete code
            Err(DecErr::Unassigned) => return Some(Invalid(Rule::ClcIncomplete)),
        };
        if sym < 16 {
            lens.push(sym as u8);
            continue;
        }
        let (val, rep) = match sym {
            16 => {
                if lens.is_empty() {
                    return Some(Invalid(Rule::Rep16First));
                }
                (*lens.last().unwrap(), 3 + need!(br.bits(2)) as usize)
            }
            17 => (0, 3 + need!(br.bits(3)) as usize),
            _ => (0, 11 + need!(br.bits(7)) as usize),
        };
        if lens.len() + rep > total {
            return Some(Invalid(Rule::RepOverrun));
        }
        if lens.len() < hlit && lens.len() + rep > hlit {
            bt.rep_crossed_boundary = true;
        }
        for _ in 0..rep {
            lens.push(val);
        }
    }
    let ll = &lens[..hlit];
    let dl = &lens[hlit..];
    bt.lit_lens = ll.to_vec();
    bt.dist_lens = dl.to_vec();
    let (lh, lleft) = build(ll);
    if lleft < 0 {
        return Some(Invalid(Rule::LitOversubscribed));
    }
    if lleft > 0 && lh.max_len > 1 {
        return Some(Invalid(Rule::LitIncomplete));
    }
    let (dh, dleft) = build(dl);
    if dleft < 0 {
        return Some(Invalid(Rule::DistOversubscribed));
    }
    if dleft > 0 && dh.max_len > 1 {
        return Some(Invalid(Rule::DistIncomplete));
    }
    codes(br, opts, r, bt, &lh, &dh, declared, ring_size)
}

#[allow(clippy::too_many_arguments)]
fn codes(br: &mut BitReader, opts: &Opts, r: &mut Inflated, bt: &mut BlockTrace, lh: &Huff, dh: &Huff, declared: u32, ring_size: usize) -> Option<Verdict> {
    use Verdict::*;
    loop {
        let (sym, cl) = match lh.decode(br) {
            Ok(s) => s,
            Err(DecErr::Eof) => return Some(Incomplete),
            Err(DecErr::Unassigned) => return Some(Invalid(Rule::BadLitSym)),
        };
        if sym < 256 {
            if r.out.len() >= opts.max_out {
                return Some(TooBig);
            }
            r.out.push(sym as u8);
            bt.n_lit += 1;
            bt.max_used_code_len = bt.max_used_code_len.max(cl);
            if opts.keep_tokens {
                bt.tokens.push(Tok::Lit(sym as u8));
            }
            continue;
        }
        if sym == 256 {
            bt.max_used_code_len = bt.max_used_code_len.max(cl);
            return None;
        }
        if sym > 285 {
            return Some(Invalid(Rule::BadLitSym));
        }
        let k = sym as u32 - 257;
        let eb = len_extra(k);
        let ex = match br.bits(eb) {
            Some(v) => v,
            None => return Some(Incomplete),
        };
        let len = len_base(k) + ex;
        let (ds, dcl) = match dh.decode(br) {
            Ok(s) => s,
            Err(DecErr::Eof) => return Some(Incomplete),
            Err(DecErr::Unassigned) => return Some(Invalid(Rule::BadDistSym)),
        };
        if ds > 29 {
            return Some(Invalid(Rule::BadDistSym));
        }
        let deb = dist_extra(ds as u32);
        let dex = match br.bits(deb) {
            Some(v) => v,
            None => return Some(Incomplete),
        };
        let dist = dist_base(ds as u32) + dex;
        let produced = r.out.len();
        match opts.window {
            WindowMode::Flat => {
                if dist as usize > produced {
                    return Some(Invalid(Rule::DistTooFar));
                }
            }
            WindowMode::Ring { .. } => {
                if dist as usize > ring_size {
                    return Some(Invalid(Rule::DistTooFar));
                }
            }
        }
        if opts.enforce_declared_window && dist > declared {
            return Some(Invalid(Rule::DistBeyondDeclared));
        }
        if r.out.len() + len as usize > opts.max_out {
            return Some(TooBig);
        }
        for _ in 0..len {
            let p = r.out.len();
            let b = if dist as usize <= p {
                r.out[p - dist as usize]
            } else {
                match opts.window {
                    WindowMode::Ring { init, start } => {
                        // ring position (start + p - dist) mod sz was never overwritten since
                        // dist > p, and dist <= sz was checked above
                        let sz = init.len();
                        init[(start + p + sz - dist as usize) % sz]
                    }
                    WindowMode::Flat => unreachable!(),
                }
            };
            r.out.push(b);
        }
        bt.n_match += 1;
        bt.max_dist = bt.max_dist.max(dist);
        bt.min_len = bt.min_len.min(len as u16);
        bt.max_len = bt.max_len.max(len as u16);
        bt.max_used_code_len = bt.max_used_code_len.max(cl).max(dcl);
        if dist < len {
            bt.overlap = true;
        }
        if opts.keep_tokens {
            bt.tokens.push(Tok::Match { len: len as u16, dist });
        }
    }
}

/// Expand a token list (used by the grammar to obtain the plaintext independently of any decoder)
pub fn expand(tokens: &[Tok], out: &mut Vec<u8>) {
    for t in tokens {
        match *t {
            Tok::Lit(b) => out.push(b),
            Tok::Match { len, dist } => {
                for _ in 0..len {
                    let b = out[out.len() - dist as usize];
                    out.push(b);
                }
            }
        }
    }
}

#[cfg(test)]
mod t {
    use super::*;
    #[test]
    fn bases() {
        assert_eq!(len_base(0), 3);
        assert_eq!(len_base(8), 11);
        assert_eq!(len_base(27), 227);
        assert_eq!(len_base(28), 258);
        assert_eq!(dist_base(0), 1);
        assert_eq!(dist_base(4), 5);
        assert_eq!(dist_base(29), 24577);
        assert_eq!(dist_extra(29), 13);
    }
}
