//! Definitional checksums: slow and obviously right.

/// Adler-32 per RFC 1950: two sums reduced modulo 65521 after every byte.
pub fn adler32_ref(start: u32, data: &[u8]) -> u32 {
    let mut a = start & 0xffff;
    let mut b = start >> 16;
    for &x in data {
        a = (a + x as u32) % 65521;
        b = (b + a) % 65521;
    }
    (b << 16) | a
}

/// CRC-32 (ISO 3309 / ITU-T V.42), bitwise, reflected polynomial 0xEDB88320.
pub fn crc32_ref(start: u32, data: &[u8]) -> u32 {
    let mut c = !start;
    for &x in data {
        c ^= x as u32;
        for _ in 0..8 {
            c = if c & 1 != 0 { (c >> 1) ^ 0xEDB8_8320 } else { c >> 1 };
        }
    }
    !c
}

/// 64-bit FNV-1a, used for fingerprints of cases (distinctness counting).
pub fn fnv64(data: &[u8]) -> u64 {
    let mut h: u64 = 0xcbf29ce484222325;
    for &b in data {
        h ^= b as u64;
        h = h.wrapping_mul(0x100000001b3);
    }
    h
}

pub fn splitmix64(x: &mut u64) -> u64 {
    *x = x.wrapping_add(0x9E3779B97F4A7C15);
    let mut z = *x;
    z = (z ^ (z >> 30)).wrapping_mul(0xBF58476D1CE4E5B9);
    z = (z ^ (z >> 27)).wrapping_mul(0x94D049BB133111EB);
    z ^ (z >> 31)
}
