//! Hand-written FFI to the system zlib (1.2.13 in this image): a second opinion only.
//! Never the sole basis of a violation.

#![allow(non_camel_case_types)]

#[cfg(have_zlib)]
mod imp {
    use libc::{c_char, c_int, c_uint, c_ulong, c_void};

    #[repr(C)]
    pub struct z_stream {
        pub next_in: *const u8,
        pub avail_in: c_uint,
        pub total_in: c_ulong,
        pub next_out: *mut u8,
        pub avail_out: c_uint,
        pub total_out: c_ulong,
        pub msg: *const c_char,
        pub state: *mut c_void,
        pub zalloc: *mut c_void,
        pub zfree: *mut c_void,
        pub opaque: *mut c_void,
        pub data_type: c_int,
        pub adler: c_ulong,
        pub reserved: c_ulong,
    }

    extern "C" {
        pub fn zlibVersion() -> *const c_char;
        pub fn inflateInit2_(strm: *mut z_stream, window_bits: c_int, version: *const c_char, stream_size: c_int) -> c_int;
        pub fn inflate(strm: *mut z_stream, flush: c_int) -> c_int;
        pub fn inflateEnd(strm: *mut z_stream) -> c_int;
        pub fn deflateInit2_(strm: *mut z_stream, level: c_int, method: c_int, window_bits: c_int, mem_level: c_int, strategy: c_int, version: *const c_char, stream_size: c_int) -> c_int;
        pub fn deflate(strm: *mut z_stream, flush: c_int) -> c_int;
        pub fn deflateEnd(strm: *mut z_stream) -> c_int;
        pub fn adler32(adler: c_ulong, buf: *const u8, len: c_uint) -> c_ulong;
        pub fn crc32(crc: c_ulong, buf: *const u8, len: c_uint) -> c_ulong;
    }

    pub fn zeroed() -> z_stream {
        // SAFETY: z_stream is plain old data; all-zero is the documented initial state
        unsafe { std::mem::zeroed() }
    }
}

pub fn available() -> bool {
    cfg!(have_zlib)
}

#[derive(Debug, Clone)]
pub struct ZInflate {
    /// Z_STREAM_END reached
    pub ok: bool,
    /// zlib return code of the last call
    pub code: i32,
    pub out: Vec<u8>,
    pub total_in: usize,
    /// ran out of input without error
    pub truncated: bool,
}

/// Inflate with system zlib. `wbits`: 15 zlib, -15 raw, 0 = use the window size from the zlib header.
/// `out_chunk` small forces zlib to keep a real sliding window (needed to enforce the declared window).
#[cfg(have_zlib)]
pub fn z_inflate(data: &[u8], wbits: i32, out_chunk: usize, max_out: usize) -> Option<ZInflate> {
    use imp::*;
    let mut s = zeroed();
    // SAFETY: documented zlib call sequence on a zeroed z_stream; buffers outlive the calls
    unsafe {
        if inflateInit2_(&mut s, wbits, zlibVersion(), std::mem::size_of::<z_stream>() as i32) != 0 {
            return None;
        }
        s.next_in = data.as_ptr();
        s.avail_in = data.len() as u32;
        let mut out = Vec::new();
        let mut chunk = vec![0u8; out_chunk.max(1)];
        let mut code;
        loop {
            s.next_out = chunk.as_mut_ptr();
            s.avail_out = chunk.len() as u32;
            code = inflate(&mut s, 0);
            let n = chunk.len() - s.avail_out as usize;
            out.extend_from_slice(&chunk[..n]);
            if code != 0 || out.len() > max_out {
                break;
            }
            if s.avail_in == 0 && s.avail_out != 0 {
                // needs more input, none left
                code = -5;
                break;
            }
        }
        let r = ZInflate { ok: code == 1, code, out, total_in: s.total_in as usize, truncated: code == -5 };
        inflateEnd(&mut s);
        Some(r)
    }
}

#[cfg(not(have_zlib))]
pub fn z_inflate(_data: &[u8], _wbits: i32, _out_chunk: usize, _max_out: usize) -> Option<ZInflate> {
    None
}

/// Deflate with system zlib; `flushes` = (input offset, zlib flush value) applied in order.
#[cfg(have_zlib)]
pub fn z_deflate(data: &[u8], level: i32, wbits: i32, mem_level: i32, strategy: i32, flushes: &[(usize, i32)]) -> Option<Vec<u8>> {
    use imp::*;
    let mut s = zeroed();
    // SAFETY: as above
    unsafe {
        if deflateInit2_(&mut s, level, 8, wbits, mem_level, strategy, zlibVersion(), std::mem::size_of::<z_stream>() as i32) != 0 {
            return None;
        }
        let mut out = Vec::new();
        let mut chunk = vec![0u8; 1 << 16];
        let mut pos = 0usize;
        let mut pts: Vec<(usize, i32)> = flushes.iter().map(|&(o, f)| (o.min(data.len()), f)).collect();
        pts.sort();
        pts.push((data.len(), 4));
        for (end, fl) in pts {
            let end = end.max(pos);
            s.next_in = data[pos..].as_ptr();
            s.avail_in = (end - pos) as u32;
            loop {
                s.next_out = chunk.as_mut_ptr();
                s.avail_out = chunk.len() as u32;
                let code = deflate(&mut s, fl);
                let n = chunk.len() - s.avail_out as usize;
                out.extend_from_slice(&chunk[..n]);
                if code == 1 {
                    break;
                }
                if code != 0 && code != -5 {
                    deflateEnd(&mut s);
                    return None;
                }
                if s.avail_out != 0 {
                    break;
                }
            }
            pos = end;
        }
        deflateEnd(&mut s);
        Some(out)
    }
}

#[cfg(not(have_zlib))]
pub fn z_deflate(_data: &[u8], _level: i32, _wbits: i32, _mem_level: i32, _strategy: i32, _flushes: &[(usize, i32)]) -> Option<Vec<u8>> {
    None
}

#[cfg(have_zlib)]
pub fn z_adler32(start: u32, data: &[u8]) -> Option<u32> {
    // SAFETY: pointer/length from a live slice
    Some(unsafe { imp::adler32(start as libc::c_ulong, data.as_ptr(), data.len() as u32) } as u32)
}
#[cfg(not(have_zlib))]
pub fn z_adler32(_start: u32, _data: &[u8]) -> Option<u32> {
    None
}

#[cfg(have_zlib)]
pub fn z_crc32(start: u32, data: &[u8]) -> Option<u32> {
    // SAFETY: pointer/length from a live slice
    Some(unsafe { imp::crc32(start as libc::c_ulong, data.as_ptr(), data.len() as u32) } as u32)
}
#[cfg(not(have_zlib))]
pub fn z_crc32(_start: u32, _data: &[u8]) -> Option<u32> {
    None
}
