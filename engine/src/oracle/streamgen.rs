//! Stream grammar: builds DEFLATE / zlib streams that are valid *by construction* (or carry
//! exactly one deliberate violation), independent of any compressor. The plaintext is obtained
//! by expanding the tokens, independently of every decoder.
//!
//! All tables here are typed in from RFC 1951 section 3.2.5 (the reference inflater computes
//! the same values from a formula instead; the self-check plays them against each other).

use super::bits::BitWriter;
use super::sums::{adler32_ref, splitmix64};
use serde::{Deserialize, Serialize};

const LEN_BASE: [u16; 29] = [3, 4, 5, 6, 7, 8, 9, 10, 11, 13, 15, 17, 19, 23, 27, 31, 35, 43, 51, 59, 67, 83, 99, 115, 131, 163, 195, 227, 258];
const LEN_EXTRA: [u8; 29] = [0, 0, 0, 0, 0, 0, 0, 0, 1, 1, 1, 1, 2, 2, 2, 2, 3, 3, 3, 3, 4, 4, 4, 4, 5, 5, 5, 5, 0];
const DIST_BASE: [u16; 30] = [1, 2, 3, 4, 5, 7, 9, 13, 17, 25, 33, 49, 65, 97, 129, 193, 257, 385, 513, 769, 1025, 1537, 2049, 3073, 4097, 6145, 8193, 12289, 16385, 24577];
const DIST_EXTRA: [u8; 30] = [0, 0, 0, 0, 1, 1, 2, 2, 3, 3, 4, 4, 5, 5, 6, 6, 7, 7, 8, 8, 9, 9, 10, 10, 11, 11, 12, 12, 13, 13];
const CLC_ORDER: [usize; 19] = [16, 17, 18, 0, 8, 7, 9, 6, 10, 5, 11, 4, 12, 3, 13, 2, 14, 1, 15];

#[derive(Clone, Debug, Serialize, Deserialize, PartialEq, Eq)]
pub enum Bytes {
    Raw(Vec<u8>),
    Rand { n: u32, seed: u64 },
    Fill { n: u32, b: u8 },
}

impl Bytes {
    pub fn expand(&self) -> Vec<u8> {
        match self {
            Bytes::Raw(v) => v.clone(),
            Bytes::Rand { n, seed } => {
                let mut s = *seed;
                (0..*n).map(|_| splitmix64(&mut s) as u8).collect()
            }
            Bytes::Fill { n, b } => vec![*b; *n as usize],
        }
    }
}

#[derive(Clone, Copy, Debug, Serialize, Deserialize, PartialEq, Eq)]
pub enum GTok {
    Lit(u8),
    /// distance = 1 + (dsel * min(produced, 32768)) >> 16, so every token list is valid;
    /// with nothing produced yet the token degrades to a literal.
    Match { len: u16, dsel: u16, alt258: bool },
}

#[derive(Clone, Debug, Serialize, Deserialize, PartialEq, Eq)]
pub struct CodeParams {
    pub seed: u64,
    /// probability/256 of splitting the deepest leaf (0 = balanced-ish, 255 = comb)
    pub p_deep: u8,
    pub max_len: u8,
    pub extra_lit: u8,
    pub extra_dist: u8,
    pub hlit_slack: u8,
    pub hdist_slack: u8,
    pub hclen_slack: u8,
    /// 0: no repeat codes, 1: greedy maximal, 2: random legal choice
    pub rle_mode: u8,
    /// if the block needs only one lit/len or distance code, keep it a one-symbol code
    pub keep_single: bool,
}

#[derive(Clone, Debug, Serialize, Deserialize, PartialEq, Eq)]
pub enum Block {
    Stored { data: Bytes, pad: u8 },
    Fixed { toks: Vec<GTok> },
    Dynamic { toks: Vec<GTok>, code: CodeParams },
}

#[derive(Clone, Copy, Debug, Serialize, Deserialize, PartialEq, Eq)]
pub enum DKind {
    Btype3,
    BadNlen,
    Hlit287,
    Hlit288,
    Hdist31,
    Hdist32,
    /// HLIT and HDIST fields both at their maximum (288 / 32 codes announced)
    HlitHdistMax,
    OversubLit,
    OversubDist,
    OversubClc,
    IncompleteLit,
    IncompleteDist,
    IncompleteClc,
    Rep16First,
    RepOverrun,
    UnassignedLit,
    UnassignedDist,
    NoDistCodeMatch,
    Lit286,
    Lit287,
    Dist30,
    Dist31,
    DistTooFar,
    ZCm,
    ZCinfo,
    ZFdict,
    ZFcheck,
    BadAdler,
}

pub const ALL_DKINDS: [DKind; 28] = [
    DKind::HlitHdistMax, DKind::Btype3, DKind::BadNlen, DKind::Hlit287, DKind::Hlit288, DKind::Hdist31, DKind::Hdist32, DKind::OversubLit, DKind::OversubDist, DKind::OversubClc,
    DKind::IncompleteLit, DKind::IncompleteDist, DKind::IncompleteClc, DKind::Rep16First, DKind::RepOverrun, DKind::UnassignedLit, DKind::UnassignedDist,
    DKind::NoDistCodeMatch, DKind::Lit286, DKind::Lit287, DKind::Dist30, DKind::Dist31, DKind::DistTooFar, DKind::ZCm, DKind::ZCinfo, DKind::ZFdict, DKind::ZFcheck, DKind::BadAdler,
];

#[derive(Clone, Copy, Debug, Serialize, Deserialize, PartialEq, Eq)]
pub struct Directive {
    pub kind: DKind,
    /// which block (taken modulo the number of suitable blocks)
    pub block: u16,
    /// position selector inside the block / extra parameter
    pub pos: u16,
}

#[derive(Clone, Debug, Serialize, Deserialize, PartialEq, Eq)]
pub struct StreamRecipe {
    /// Some((cinfo_wish, flevel)) wraps in zlib; cinfo is raised as far as the distances used require
    pub zlib: Option<(u8, u8)>,
    pub blocks: Vec<Block>,
    pub directive: Option<Directive>,
}

#[derive(Clone, Debug)]
pub struct Built {
    pub bytes: Vec<u8>,
    /// plaintext of the whole stream (for a stream with a directive: of what precedes the violation)
    pub plain: Vec<u8>,
    /// exact encoded length: ceil(bits/8) of header+deflate data, +4 for zlib
    pub enc_len: usize,
    /// bit length of header + deflate data
    pub bit_len: usize,
    pub directive_applied: Option<DKind>,
    /// bit position just after each block
    pub block_end_bits: Vec<usize>,
    /// plaintext length after each block
    pub block_out_ends: Vec<usize>,
    pub max_dist: u32,
}

struct Rng(u64);
impl Rng {
    fn next(&mut self) -> u64 {
        splitmix64(&mut self.0)
    }
    fn below(&mut self, n: usize) -> usize {
        if n == 0 {
            0
        } else {
            (self.next() % n as u64) as usize
        }
    }
}

/// concrete token after distances are resolved
#[derive(Clone, Copy)]
enum CTok {
    Lit(u8),
    Match { len: u16, dist: u32, alt258: bool },
}

fn len_sym(len: u16, alt258: bool) -> (usize, u32, u32) {
    if len == 258 && alt258 {
        return (284, 5, 31);
    }
    let mut k = 28;
    while LEN_BASE[k] > len {
        k -= 1;
    }
    // 258 must use symbol 285 unless alt; lengths 227..=257 use 284
    if len == 258 {
        k = 28;
    } else if k == 28 {
        k = 27;
    }
    (257 + k, LEN_EXTRA[k] as u32, (len - LEN_BASE[k]) as u32)
}

fn dist_sym(dist: u32) -> (usize, u32, u32) {
    let mut k = 29;
    while DIST_BASE[k] as u32 > dist {
        k -= 1;
    }
    (k, DIST_EXTRA[k] as u32, dist - DIST_BASE[k] as u32)
}

/// A.1: random complete prefix code lengths for n >= 2 leaves, each <= maxlen
fn gen_depths(n: usize, maxlen: u8, p_deep: u8, rng: &mut Rng) -> Vec<u8> {
    let mut leaves: Vec<u8> = vec![1, 1];
    while leaves.len() < n {
        let deep = (rng.next() & 0xff) < p_deep as u64;
        let idx = if deep {
            let mut best = usize::MAX;
            for (i, &d) in leaves.iter().enumerate() {
                if d < maxlen && (best == usize::MAX || d > leaves[best]) {
                    best = i;
                }
            }
            best
        } else {
            let start = rng.below(leaves.len());
            let mut i = start;
            loop {
                if leaves[i] < maxlen {
                    break i;
                }
                i = (i + 1) % leaves.len();
                if i == start {
                    break usize::MAX;
                }
            }
        };
        assert!(idx != usize::MAX, "no splittable leaf");
        let d = leaves[idx] + 1;
        leaves[idx] = d;
        leaves.push(d);
    }
    leaves
}

fn shuffle<T>(v: &mut [T], rng: &mut Rng) {
    for i in (1..v.len()).rev() {
        let j = rng.below(i + 1);
        v.swap(i, j);
    }
}

/// canonical codes per RFC 1951 3.2.2
fn canon(lens: &[u8]) -> Vec<u32> {
    let mut bl = [0u32; 17];
    for &l in lens {
        bl[l as usize] += 1;
    }
    bl[0] = 0;
    let mut next = [0u32; 17];
    let mut code = 0u32;
    for b in 1..=16 {
        code = (code + bl[b - 1]) << 1;
        next[b] = code;
    }
    let mut out = vec![0u32; lens.len()];
    for (s, &l) in lens.iter().enumerate() {
        if l != 0 {
            out[s] = next[l as usize];
            next[l as usize] += 1;
        }
    }
    out
}

/// assign code lengths to the `used` symbols (+ `extra` unused ones) of an alphabet of size `alpha`
fn make_code(used: &[bool], extra: usize, alpha: usize, cp: &CodeParams, maxlen: u8, rng: &mut Rng, allow_single: bool, allow_none: bool) -> Vec<u8> {
    let mut syms: Vec<usize> = (0..alpha).filter(|&s| used[s]).collect();
    let mut others: Vec<usize> = (0..alpha).filter(|&s| !used[s]).collect();
    shuffle(&mut others, rng);
    for &o in others.iter().take(extra) {
        syms.push(o);
    }
    let mut lens = vec![0u8; alpha];
    if syms.is_empty() {
        if allow_none && cp.keep_single {
            return lens;
        }
        syms.push(others[0]);
    }
    if syms.len() == 1 {
        if allow_single && cp.keep_single {
            lens[syms[0]] = 1;
            return lens;
        }
        let o = others.iter().copied().find(|o| !syms.contains(o)).unwrap();
        syms.push(o);
    }
    let mut depths = gen_depths(syms.len(), maxlen, cp.p_deep, rng);
    shuffle(&mut depths, rng);
    for (s, d) in syms.iter().zip(depths) {
        lens[*s] = d;
    }
    lens
}

#[derive(Clone, Copy)]
enum ClItem {
    Len(u8),
    Rep16(u8),  // 3..=6
    Rep17(u8),  // 3..=10
    Rep18(u8),  // 11..=138
}

fn plan_lengths(seq: &[u8], mode: u8, rng: &mut Rng) -> Vec<ClItem> {
    let mut out = Vec::new();
    let mut i = 0;
    while i < seq.len() {
        let v = seq[i];
        let mut r = 1;
        while i + r < seq.len() && seq[i + r] == v {
            r += 1;
        }
        let can16 = i > 0 && seq[i - 1] == v && r >= 3;
        let can17 = v == 0 && r >= 3;
        let can18 = v == 0 && r >= 11;
        let choice = match mode {
            0 => 0,
            1 => {
                if can18 {
                    3
                } else if can17 {
                    2
                } else if can16 {
                    1
                } else {
                    0
                }
            }
            _ => {
                let mut opts = vec![0u8];
                if can16 {
                    opts.push(1);
                    opts.push(1);
                }
                if can17 {
                    opts.push(2);
                    opts.push(2);
                }
                if can18 {
                    opts.push(3);
                    opts.push(3);
                }
                opts[rng.below(opts.len())]
            }
        };
        match choice {
            1 => {
                let maxc = r.min(6);
                let c = if mode == 1 { maxc } else { 3 + rng.below(maxc - 2) };
                out.push(ClItem::Rep16(c as u8));
                i += c;
            }
            2 => {
                let maxc = r.min(10);
                let c = if mode == 1 { maxc } else { 3 + rng.below(maxc - 2) };
                out.push(ClItem::Rep17(c as u8));
                i += c;
            }
            3 => {
                let maxc = r.min(138);
                let c = if mode == 1 { maxc } else { 11 + rng.below(maxc - 10) };
                out.push(ClItem::Rep18(c as u8));
                i += c;
            }
            _ => {
                out.push(ClItem::Len(v));
                i += 1;
            }
        }
    }
    out
}

fn fixed_lit_lens() -> Vec<u8> {
    let mut ll = vec![8u8; 288];
    for l in ll.iter_mut().take(256).skip(144) {
        *l = 9;
    }
    for l in ll.iter_mut().take(280).skip(256) {
        *l = 7;
    }
    ll
}

pub fn build(r: &StreamRecipe) -> Built {
    let mut w = BitWriter::new();
    let mut plain: Vec<u8> = Vec::new();
    let mut max_dist = 0u32;
    let mut applied: Option<DKind> = None;
    let mut blocks: Vec<Block> = r.blocks.clone();
    if blocks.is_empty() {
        blocks.push(Block::Stored { data: Bytes::Raw(vec![]), pad: 0 });
    }
    let nb = blocks.len();
    let dir = r.directive;

    let r_blocks = blocks.clone();
    // which block the directive targets
    let target = |pred: &dyn Fn(&Block) -> bool, sel: u16| -> Option<usize> {
        let c: Vec<usize> = (0..nb).filter(|&i| pred(&r_blocks[i])).collect();
        if c.is_empty() {
            None
        } else {
            Some(c[sel as usize % c.len()])
        }
    };
    let mut dblock: Option<usize> = None;
    if let Some(d) = dir {
        use DKind::*;
        dblock = match d.kind {
            Btype3 => target(&|_| true, d.block),
            BadNlen => target(&|b| matches!(b, Block::Stored { .. }), d.block),
            Hlit287 | Hlit288 | Hdist31 | Hdist32 | HlitHdistMax | OversubLit | OversubDist | OversubClc | IncompleteLit | IncompleteDist | IncompleteClc | Rep16First | RepOverrun | UnassignedLit | UnassignedDist | NoDistCodeMatch => {
                target(&|b| matches!(b, Block::Dynamic { .. }), d.block)
            }
            Lit286 | Lit287 | Dist30 | Dist31 => target(&|b| matches!(b, Block::Fixed { .. }), d.block),
            DistTooFar => target(&|b| matches!(b, Block::Fixed { .. } | Block::Dynamic { .. }), d.block),
            ZCm | ZCinfo | ZFdict | ZFcheck | BadAdler => None,
        };
    }

    // token-shape directives are applied to the recipe itself, before distances are resolved
    if let (Some(d), Some(bi)) = (dir, dblock) {
        if let Block::Dynamic { toks, .. } = &mut blocks[bi] {
            match d.kind {
                DKind::UnassignedLit => toks.clear(),
                DKind::NoDistCodeMatch => toks.retain(|t| matches!(t, GTok::Lit(_))),
                DKind::UnassignedDist => {
                    for t in toks.iter_mut() {
                        if let GTok::Match { dsel, .. } = t {
                            *dsel = 0;
                        }
                    }
                }
                _ => {}
            }
        }
    }

    // Resolve tokens first (needs running output length), so the zlib header can declare a window
    // that covers every distance used.
    let mut ctoks: Vec<Vec<CTok>> = Vec::with_capacity(nb);
    {
        let mut produced = 0usize;
        for b in &blocks {
            match b {
                Block::Stored { data, .. } => {
                    produced += match data {
                        Bytes::Raw(v) => v.len().min(65535),
                        Bytes::Rand { n, .. } | Bytes::Fill { n, .. } => (*n as usize).min(65535),
                    };
                    ctoks.push(Vec::new());
                }
                Block::Fixed { toks } | Block::Dynamic { toks, .. } => {
                    let mut v = Vec::with_capacity(toks.len());
                    for t in toks {
                        match *t {
                            GTok::Lit(b) => {
                                v.push(CTok::Lit(b));
                                produced += 1;
                            }
                            GTok::Match { len, dsel, alt258 } => {
                                let avail = produced.min(32768);
                                let len = len.clamp(3, 258);
                                if avail == 0 {
                                    v.push(CTok::Lit(len as u8));
                                    produced += 1;
                                } else {
                                    let dist = 1 + ((dsel as u64 * avail as u64) >> 16) as u32;
                                    max_dist = max_dist.max(dist);
                                    v.push(CTok::Match { len, dist, alt258 });
                                    produced += len as usize;
                                }
                            }
                        }
                    }
                    ctoks.push(v);
                }
            }
        }
    }

    if let Some((cinfo_wish, flevel)) = r.zlib {
        let mut need = 0u8;
        while (1u32 << (need + 8)) < max_dist {
            need += 1;
        }
        let mut cinfo = cinfo_wish.min(7).max(need);
        let mut cm = 8u8;
        let mut fdict = 0u8;
        let mut bad_check = false;
        if let Some(d) = dir {
            match d.kind {
                DKind::ZCm => {
                    cm = [0u8, 1, 7, 9, 15, 4][d.pos as usize % 6];
                    applied = Some(d.kind);
                }
                DKind::ZCinfo => {
                    cinfo = [8u8, 8, 8, 9, 9, 10, 12, 15][(d.pos % 8) as usize];
                    applied = Some(d.kind);
                }
                DKind::ZFdict => {
                    fdict = 1;
                    applied = Some(d.kind);
                }
                DKind::ZFcheck => {
                    bad_check = true;
                    applied = Some(d.kind);
                }
                _ => {}
            }
        }
        let cmf = cm | (cinfo << 4);
        let mut flg = ((flevel & 3) << 6) | (fdict << 5);
        let rem = ((cmf as u32) * 256 + flg as u32) % 31;
        if rem != 0 {
            flg += (31 - rem) as u8;
        }
        if bad_check {
            // any of the 30 other values of the 5 check bits
            let delta = 1 + (dir.unwrap().pos % 30) as u8;
            flg = (flg & 0xe0) | ((flg & 0x1f) + delta) % 31 % 32;
            if ((cmf as u32) * 256 + flg as u32) % 31 == 0 {
                flg ^= 1;
            }
        }
        w.byte(cmf);
        w.byte(flg);
    }
    let header_violation = applied.is_some();

    let mut block_end_bits = Vec::with_capacity(nb);
    let mut block_out_ends = Vec::with_capacity(nb);
    let mut plain_frozen = header_violation; // once a violation is emitted the "plaintext" stops growing
    for (bi, b) in blocks.iter().enumerate() {
        let last = bi + 1 == nb;
        let dk = if dblock == Some(bi) { dir.map(|d| d.kind) } else { None };
        let dpos = dir.map(|d| d.pos).unwrap_or(0);
        w.bit(last as u32);
        if dk == Some(DKind::Btype3) {
            w.bits(3, 2);
            applied = Some(DKind::Btype3);
            plain_frozen = true;
            // emit the rest of the block anyway as if it were fixed (a lenient decoder would go on)
        }
        match b {
            Block::Stored { data, pad } => {
                let mut bytes = data.expand();
                bytes.truncate(65535);
                if dk != Some(DKind::Btype3) {
                    w.bits(0, 2);
                }
                w.align(*pad as u32);
                let len = bytes.len() as u32;
                let mut nlen = !len & 0xffff;
                if dk == Some(DKind::BadNlen) {
                    let mask = 1u32 << (dpos % 16);
                    nlen ^= mask;
                    applied = Some(DKind::BadNlen);
                    plain_frozen = true;
                }
                w.bits(len, 16);
                w.bits(nlen, 16);
                for &x in &bytes {
                    w.byte(x);
                }
                if !plain_frozen {
                    plain.extend_from_slice(&bytes);
                }
            }
            Block::Fixed { .. } => {
                if dk != Some(DKind::Btype3) {
                    w.bits(1, 2);
                }
                let ll = fixed_lit_lens();
                let dl = vec![5u8; 32];
                emit_tokens(&mut w, &ctoks[bi], &ll, &dl, dk, dpos, &mut plain, &mut plain_frozen, &mut applied);
            }
            Block::Dynamic { code, .. } => {
                if dk != Some(DKind::Btype3) {
                    w.bits(2, 2);
                }
                let mut rng = Rng(code.seed);
                let toks = &ctoks[bi];
                let mut used_l = vec![false; 286];
                let mut used_d = vec![false; 30];
                used_l[256] = true;
                for t in toks {
                    match *t {
                        CTok::Lit(b) => used_l[b as usize] = true,
                        CTok::Match { len, dist, alt258 } => {
                            used_l[len_sym(len, alt258).0] = true;
                            used_d[dist_sym(dist).0] = true;
                        }
                    }
                }
                if dk == Some(DKind::DistTooFar) && !used_d.iter().any(|&u| u) {
                    used_d[0] = true;
                }
                let maxlen = code.max_len.clamp(9, 15);
                let mut cp = code.clone();
                match dk {
                    Some(DKind::UnassignedLit) => {
                        // needs an EOB-only one-symbol code: drop all tokens of this block
                        cp.keep_single = true;
                        cp.extra_lit = 0;
                        used_l = vec![false; 286];
                        used_l[256] = true;
                    }
                    Some(DKind::UnassignedDist) => {
                        cp.keep_single = true;
                        cp.extra_dist = 0;
                    }
                    Some(DKind::NoDistCodeMatch) => {
                        cp.keep_single = true;
                        cp.extra_dist = 0;
                    }
                    Some(DKind::IncompleteLit) | Some(DKind::OversubLit) => cp.extra_lit = cp.extra_lit.max(2),
                    Some(DKind::IncompleteDist) | Some(DKind::OversubDist) => cp.extra_dist = cp.extra_dist.max(2),
                    _ => {}
                }
                let toks_eff: Vec<CTok> = toks.clone();
                if matches!(dk, Some(DKind::NoDistCodeMatch) | Some(DKind::UnassignedDist) | Some(DKind::UnassignedLit)) {
                    used_l = vec![false; 286];
                    used_d = vec![false; 30];
                    used_l[256] = true;
                    for t in &toks_eff {
                        match *t {
                            CTok::Lit(b) => used_l[b as usize] = true,
                            CTok::Match { len, dist, alt258 } => {
                                used_l[len_sym(len, alt258).0] = true;
                                used_d[dist_sym(dist).0] = true;
                            }
                        }
                    }
                    if dk == Some(DKind::NoDistCodeMatch) {
                        used_l[257 + (dpos as usize % 29)] = true; // a length code for the bogus match
                    }
                    if dk == Some(DKind::UnassignedDist) && !used_d.iter().any(|&u| u) {
                        used_d[dpos as usize % 30] = true;
                        used_l[257] = true;
                    }
                }
                let mut ll = make_code(&used_l, cp.extra_lit as usize, 286, &cp, maxlen, &mut rng, true, false);
                let mut dl = make_code(&used_d, cp.extra_dist as usize, 30, &cp, maxlen, &mut rng, true, true);
                // table-shape violations
                match dk {
                    Some(DKind::OversubLit) => {
                        if let Some(s) = pick(&ll, |l| l > 1, dpos) {
                            ll[s] -= 1;
                            applied = dk;
                        }
                    }
                    Some(DKind::OversubDist) => {
                        if let Some(s) = pick(&dl, |l| l > 1, dpos) {
                            dl[s] -= 1;
                            applied = dk;
                        }
                    }
                    Some(DKind::IncompleteLit) => {
                        if let Some(s) = pick(&ll, |l| l > 0 && l < 15, dpos) {
                            ll[s] += 1;
                            applied = dk;
                        }
                    }
                    Some(DKind::IncompleteDist) => {
                        if let Some(s) = pick(&dl, |l| l > 0 && l < 15, dpos) {
                            dl[s] += 1;
                            applied = dk;
                        }
                    }
                    _ => {}
                }
                let mut hlit = (0..286).rev().find(|&s| ll[s] != 0).map(|s| s + 1).unwrap_or(257).max(257);
                hlit = (hlit + cp.hlit_slack as usize).min(286);
                let mut hdist = (0..30).rev().find(|&s| dl[s] != 0).map(|s| s + 1).unwrap_or(1).max(1);
                hdist = (hdist + cp.hdist_slack as usize).min(30);
                let mut seq: Vec<u8> = ll[..hlit].to_vec();
                seq.extend_from_slice(&dl[..hdist]);
                let mut plan = plan_lengths(&seq, cp.rle_mode, &mut rng);
                if dk == Some(DKind::RepOverrun) {
                    // drop the last item and overshoot with a zero-run
                    let last = plan.pop().unwrap();
                    let rem = match last {
                        ClItem::Len(_) => 1usize,
                        ClItem::Rep16(c) | ClItem::Rep17(c) | ClItem::Rep18(c) => c as usize,
                    };
                    let mut rem = rem;
                    if rem >= 138 {
                        plan.push(ClItem::Len(0));
                        rem -= 1;
                    }
                    let c = (rem + 1 + (dpos as usize % 8)).clamp(11, 138);
                    plan.push(ClItem::Rep18(c as u8));
                    applied = dk;
                }
                if dk == Some(DKind::Rep16First) {
                    plan.insert(0, ClItem::Rep16(3 + (dpos % 4) as u8));
                    applied = dk;
                }
                let mut used_c = vec![false; 19];
                for it in &plan {
                    match *it {
                        ClItem::Len(v) => used_c[v as usize] = true,
                        ClItem::Rep16(_) => used_c[16] = true,
                        ClItem::Rep17(_) => used_c[17] = true,
                        ClItem::Rep18(_) => used_c[18] = true,
                    }
                }
                let cpc = CodeParams { keep_single: false, ..cp.clone() };
                let extra_c = (rng.next() % 4) as usize;
                let mut cl = make_code(&used_c, extra_c, 19, &cpc, 7, &mut rng, false, false);
                match dk {
                    Some(DKind::OversubClc) => {
                        if let Some(s) = pick(&cl, |l| l > 1, dpos) {
                            cl[s] -= 1;
                            applied = dk;
                        }
                    }
                    Some(DKind::IncompleteClc) => {
                        if let Some(s) = pick(&cl, |l| l > 0 && l < 7, dpos) {
                            cl[s] += 1;
                            applied = dk;
                        }
                    }
                    _ => {}
                }
                let mut hclen = (0..19).rev().find(|&i| cl[CLC_ORDER[i]] != 0).map(|i| i + 1).unwrap_or(4).max(4);
                hclen = (hclen + cp.hclen_slack as usize).min(19);
                let (mut f_hlit, mut f_hdist) = (hlit as u32 - 257, hdist as u32 - 1);
                match dk {
                    Some(DKind::Hlit287) => {
                        f_hlit = 30;
                        applied = dk;
                    }
                    Some(DKind::Hlit288) => {
                        f_hlit = 31;
                        applied = dk;
                    }
                    Some(DKind::Hdist31) => {
                        f_hdist = 30;
                        applied = dk;
                    }
                    Some(DKind::Hdist32) => {
                        f_hdist = 31;
                        applied = dk;
                    }
                    Some(DKind::HlitHdistMax) => {
                        f_hlit = 31;
                        f_hdist = 31;
                        applied = dk;
                    }
                    _ => {}
                }
                if applied.is_some() && applied == dk {
                    plain_frozen = true;
                }
                w.bits(f_hlit, 5);
                w.bits(f_hdist, 5);
                w.bits(hclen as u32 - 4, 4);
                for &o in CLC_ORDER.iter().take(hclen) {
                    w.bits(cl[o] as u32, 3);
                }
                let cc = canon(&cl);
                for it in &plan {
                    match *it {
                        ClItem::Len(v) => w.code(cc[v as usize], cl[v as usize] as u32),
                        ClItem::Rep16(c) => {
                            w.code(cc[16], cl[16] as u32);
                            w.bits(c as u32 - 3, 2);
                        }
                        ClItem::Rep17(c) => {
                            w.code(cc[17], cl[17] as u32);
                            w.bits(c as u32 - 3, 3);
                        }
                        ClItem::Rep18(c) => {
                            w.code(cc[18], cl[18] as u32);
                            w.bits(c as u32 - 11, 7);
                        }
                    }
                }
                emit_tokens(&mut w, &toks_eff, &ll, &dl, dk, dpos, &mut plain, &mut plain_frozen, &mut applied);
            }
        }
        block_end_bits.push(w.bit_len());
        block_out_ends.push(plain.len());
    }
    let bit_len = w.bit_len();
    w.align(0);
    let mut enc_len = w.bytes.len();
    if r.zlib.is_some() {
        let mut a = adler32_ref(1, &plain);
        if let Some(d) = dir {
            if d.kind == DKind::BadAdler && applied.is_none() {
                a ^= 1u32 << (d.pos % 32);
                applied = Some(DKind::BadAdler);
            }
        }
        for i in 0..4 {
            w.byte((a >> (24 - 8 * i)) as u8);
        }
        enc_len += 4;
    }
    Built { bytes: w.bytes, plain, enc_len, bit_len, directive_applied: applied, block_end_bits, block_out_ends, max_dist }
}

fn pick(lens: &[u8], pred: impl Fn(u8) -> bool, sel: u16) -> Option<usize> {
    let c: Vec<usize> = (0..lens.len()).filter(|&s| pred(lens[s])).collect();
    if c.is_empty() {
        None
    } else {
        Some(c[sel as usize % c.len()])
    }
}

#[allow(clippy::too_many_arguments)]
fn emit_tokens(w: &mut BitWriter, toks: &[CTok], ll: &[u8], dl: &[u8], dk: Option<DKind>, dpos: u16, plain: &mut Vec<u8>, frozen: &mut bool, applied: &mut Option<DKind>) {
    let lc = canon(ll);
    let dc = canon(dl);
    // position at which a token-level violation is injected
    let inject_at = if toks.is_empty() { 0 } else { dpos as usize % (toks.len() + 1) };
    let token_level = matches!(dk, Some(DKind::Lit286) | Some(DKind::Lit287) | Some(DKind::Dist30) | Some(DKind::Dist31) | Some(DKind::DistTooFar) | Some(DKind::UnassignedLit) | Some(DKind::UnassignedDist) | Some(DKind::NoDistCodeMatch));
    for (i, t) in toks.iter().enumerate() {
        if token_level && i == inject_at && applied.is_none() {
            inject(w, ll, dl, &lc, &dc, dk.unwrap(), dpos, plain.len(), frozen, applied);
        }
        match *t {
            CTok::Lit(b) => {
                w.code(lc[b as usize], ll[b as usize] as u32);
                if !*frozen {
                    plain.push(b);
                }
            }
            CTok::Match { len, dist, alt258 } => {
                let (ls, le, lx) = len_sym(len, alt258);
                w.code(lc[ls], ll[ls] as u32);
                w.bits(lx, le);
                let (ds, de, dx) = dist_sym(dist);
                w.code(dc[ds], dl[ds] as u32);
                w.bits(dx, de);
                if !*frozen {
                    for _ in 0..len {
                        let b = plain[plain.len() - dist as usize];
                        plain.push(b);
                    }
                }
            }
        }
    }
    if token_level && applied.is_none() {
        inject(w, ll, dl, &lc, &dc, dk.unwrap(), dpos, plain.len(), frozen, applied);
    }
    // end of block
    w.code(lc[256], ll[256] as u32);
}

#[allow(clippy::too_many_arguments)]
fn inject(w: &mut BitWriter, ll: &[u8], dl: &[u8], lc: &[u32], dc: &[u32], dk: DKind, dpos: u16, produced: usize, frozen: &mut bool, applied: &mut Option<DKind>) {
    // canonical code of a symbol >= ll.len() in the fixed code: 286/287 have 8-bit codes 0xC6/0xC7
    match dk {
        DKind::Lit286 | DKind::Lit287 => {
            let s = if dk == DKind::Lit286 { 286 } else { 287 };
            w.code(lc[s], ll[s] as u32);
        }
        DKind::Dist30 | DKind::Dist31 => {
            w.code(lc[257], ll[257] as u32); // length 3
            let s = if dk == DKind::Dist30 { 30 } else { 31 };
            w.code(dc[s], dl[s] as u32);
        }
        DKind::DistTooFar => {
            // smallest representable distance beyond what was produced, if one exists
            let want = produced as u32 + 1 + (dpos as u32 % 7);
            if want > 32768 {
                return;
            }
            // use a distance symbol that has a code
            let (ds, de, dx) = dist_sym(want);
            if dl[ds] == 0 {
                // try any coded distance symbol whose range lies beyond `produced`
                let mut found = None;
                for s in 0..30 {
                    if dl[s] != 0 && (DIST_BASE[s] as u32) > produced as u32 {
                        found = Some(s);
                        break;
                    }
                }
                match found {
                    Some(s) => {
                        if ll[257] == 0 {
                            return;
                        }
                        w.code(lc[257], ll[257] as u32);
                        w.code(dc[s], dl[s] as u32);
                        w.bits(0, DIST_EXTRA[s] as u32);
                    }
                    None => return,
                }
            } else {
                if ll[257] == 0 {
                    return;
                }
                w.code(lc[257], ll[257] as u32);
                w.code(dc[ds], dl[ds] as u32);
                w.bits(dx, de);
            }
        }
        DKind::UnassignedLit => {
            // one-symbol code: the only assigned pattern is '0'
            if ll.iter().filter(|&&l| l != 0).count() != 1 {
                return;
            }
            w.bit(1);
        }
        DKind::UnassignedDist => {
            if dl.iter().filter(|&&l| l != 0).count() != 1 {
                return;
            }
            let ls = (257..286).find(|&s| ll[s] != 0);
            let ls = match ls {
                Some(s) => s,
                None => return,
            };
            w.code(lc[ls], ll[ls] as u32);
            w.bits(0, LEN_EXTRA[ls - 257] as u32);
            w.bit(1);
        }
        DKind::NoDistCodeMatch => {
            if dl.iter().any(|&l| l != 0) {
                return;
            }
            let ls = (257..286).find(|&s| ll[s] != 0);
            let ls = match ls {
                Some(s) => s,
                None => return,
            };
            w.code(lc[ls], ll[ls] as u32);
            w.bits(0, LEN_EXTRA[ls - 257] as u32);
            w.bits(dpos as u32, 5);
        }
        _ => return,
    }
    *applied = Some(dk);
    *frozen = true;
}

/// Which reference-inflater rules a directive may legitimately surface as.
pub fn expected_rules(k: DKind) -> &'static [super::inflate::Rule] {
    use super::inflate::Rule as R;
    match k {
        DKind::Btype3 => &[R::BlockType3],
        DKind::BadNlen => &[R::StoredLen],
        DKind::Hlit287 | DKind::Hlit288 | DKind::HlitHdistMax => &[R::Hlit],
        DKind::Hdist31 | DKind::Hdist32 => &[R::Hdist, R::Hlit],
        DKind::OversubLit => &[R::LitOversubscribed],
        DKind::OversubDist => &[R::DistOversubscribed],
        DKind::OversubClc => &[R::ClcOversubscribed],
        DKind::IncompleteLit => &[R::LitIncomplete],
        DKind::IncompleteDist => &[R::DistIncomplete],
        DKind::IncompleteClc => &[R::ClcIncomplete],
        DKind::Rep16First => &[R::Rep16First],
        DKind::RepOverrun => &[R::RepOverrun],
        DKind::UnassignedLit | DKind::Lit286 | DKind::Lit287 => &[R::BadLitSym],
        DKind::UnassignedDist | DKind::NoDistCodeMatch | DKind::Dist30 | DKind::Dist31 => &[R::BadDistSym],
        DKind::DistTooFar => &[R::DistTooFar],
        DKind::ZCm => &[R::ZlibCm],
        DKind::ZCinfo => &[R::ZlibCinfo, R::ZlibCm],
        DKind::ZFdict => &[R::ZlibFdict],
        DKind::ZFcheck => &[R::ZlibFcheck],
        DKind::BadAdler => &[R::Adler],
    }
}
