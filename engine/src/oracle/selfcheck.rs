//! Oracle self-check (DESIGN 3.5): the grammar, the reference inflater, the definitional checksums
//! and system zlib are played against each other. A disagreement among oracles is machinery
//! trouble (exit 2), never a violation of the crate.

use super::inflate::{inflate, Opts, Verdict};
use super::streamgen::{build, expected_rules};
use super::sums::{adler32_ref, crc32_ref, splitmix64};
use super::zlibffi;
use crate::gen::stream as gs;
use crate::runner::worker::make_runner;
use proptest::strategy::{Strategy, ValueTree};

pub struct SelfCheckStats {
    pub valid_streams: u64,
    pub directive_streams: u64,
    pub directives_applied: u64,
    pub zlib_crosschecks: u64,
    pub checksum_buffers: u64,
}

pub fn run(n_valid: usize, n_dir: usize) -> Result<SelfCheckStats, String> {
    let mut st = SelfCheckStats { valid_streams: 0, directive_streams: 0, directives_applied: 0, zlib_crosschecks: 0, checksum_buffers: 0 };
    let mut runner = make_runner(0x5e1f_c4ec);
    let strat = gs::stream(5, 40, 2000, None, 2);
    for i in 0..n_valid {
        let rec = strat.new_tree(&mut runner).map_err(|e| e.to_string())?.current();
        let b = build(&rec);
        let zl = rec.zlib.is_some();
        let r = inflate(&b.bytes, &Opts::fmt(zl));
        if r.verdict != Verdict::Valid {
            return Err(format!("grammar stream #{i} not Valid for the reference inflater: {:?} at bit {} recipe {}", r.verdict, r.bit_pos, serde_json::to_string(&rec).unwrap()));
        }
        if r.out != b.plain {
            return Err(format!("grammar stream #{i}: reference output differs from token expansion; recipe {}", serde_json::to_string(&rec).unwrap()));
        }
        if r.consumed != b.enc_len || b.enc_len != b.bytes.len() {
            return Err(format!("grammar stream #{i}: encoded length disagreement ref {} writer {} bytes {}", r.consumed, b.enc_len, b.bytes.len()));
        }
        st.valid_streams += 1;
        if let Some(z) = zlibffi::z_inflate(&b.bytes, if zl { 15 } else { -15 }, 1 << 16, 1 << 28) {
            st.zlib_crosschecks += 1;
            if !z.ok || z.out != b.plain || z.total_in != b.enc_len {
                return Err(format!("grammar stream #{i}: zlib disagrees (ok {} code {} out {} vs {} in {} vs {}) recipe {}", z.ok, z.code, z.out.len(), b.plain.len(), z.total_in, b.enc_len, serde_json::to_string(&rec).unwrap()));
            }
        }
    }
    let dstrat = gs::stream_with_directive(4, 30, 500, None);
    for i in 0..n_dir {
        let rec = dstrat.new_tree(&mut runner).map_err(|e| e.to_string())?.current();
        let b = build(&rec);
        let zl = rec.zlib.is_some();
        let r = inflate(&b.bytes, &Opts::fmt(zl));
        st.directive_streams += 1;
        match b.directive_applied {
            None => {
                if r.verdict != Verdict::Valid || r.out != b.plain {
                    return Err(format!("directive stream #{i} (not applied) should be valid: {:?} recipe {}", r.verdict, serde_json::to_string(&rec).unwrap()));
                }
            }
            Some(k) => {
                st.directives_applied += 1;
                match &r.verdict {
                    Verdict::Invalid(rule) if expected_rules(k).contains(rule) => {}
                    v => return Err(format!("directive {k:?} surfaced as {v:?} in the reference inflater; recipe {}", serde_json::to_string(&rec).unwrap())),
                }
                if r.out.len() < b.plain.len() || r.out[..b.plain.len()] != b.plain[..] {
                    return Err(format!("directive {k:?}: reference output before the violation is not the grammar's plaintext prefix; recipe {}", serde_json::to_string(&rec).unwrap()));
                }
                if let Some(z) = zlibffi::z_inflate(&b.bytes, if zl { 15 } else { -15 }, 1 << 16, 1 << 28) {
                    st.zlib_crosschecks += 1;
                    if z.ok {
                        return Err(format!("directive {k:?}: zlib accepted the stream; recipe {}", serde_json::to_string(&rec).unwrap()));
                    }
                }
            }
        }
    }
    // checksums
    let mut s = 0xabcdu64;
    for i in 0..200usize {
        let n = match i % 5 {
            0 => i,
            1 => 5550 + i % 7,
            2 => 65530 + i % 9,
            3 => (splitmix64(&mut s) % 3000) as usize,
            _ => 11104 + i % 5,
        };
        let buf: Vec<u8> = if i % 3 == 0 { vec![0xff; n] } else { (0..n).map(|_| splitmix64(&mut s) as u8).collect() };
        let start_a = if i % 2 == 0 { 1 } else { adler32_ref(1, &buf[..n / 3]) };
        let start_c = if i % 2 == 0 { 0 } else { crc32_ref(0, &buf[..n / 3]) };
        if let (Some(za), Some(zc)) = (zlibffi::z_adler32(start_a, &buf), zlibffi::z_crc32(start_c, &buf)) {
            if za != adler32_ref(start_a, &buf) {
                return Err(format!("adler32_ref disagrees with zlib on buffer #{i} (len {n})"));
            }
            if zc != crc32_ref(start_c, &buf) {
                return Err(format!("crc32_ref disagrees with zlib on buffer #{i} (len {n})"));
            }
        }
        st.checksum_buffers += 1;
    }
    // known answers (RFC 1950 / ISO 3309 test vectors)
    if adler32_ref(1, b"Wikipedia") != 0x11E60398 {
        return Err("adler32_ref known answer".into());
    }
    if crc32_ref(0, b"123456789") != 0xCBF43926 {
        return Err("crc32_ref known answer".into());
    }
    Ok(st)
}
