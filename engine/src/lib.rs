//! mzv: property-based testing / fuzzing engine for miniz_oxide (see /verif/DESIGN.md).
pub mod gen;
pub mod oracle;
pub mod props;
pub mod runner;
pub mod sut;
