//! Drivers for the streaming compressor: core::compress (buffer), core::compress_to_output
//! (callback) and stream::deflate, under a generated schedule.

use crate::gen::config::{tdefl_flush, Schedule};
use crate::runner::{guard, panic_sig, Violation};
use miniz_oxide::deflate::core::{compress, compress_to_output, CompressorOxide, TDEFLFlush, TDEFLStatus};
use miniz_oxide::deflate::stream::deflate;
use miniz_oxide::{MZError, MZFlush, MZStatus};
use serde::{Deserialize, Serialize};

#[derive(Clone, Copy, Debug, Serialize, Deserialize, PartialEq, Eq)]
pub enum Driver {
    Buf,
    Callback,
    Stream,
}

#[derive(Clone, Debug)]
pub struct FlushPoint {
    pub flush: u8,
    /// bytes of output emitted up to and including this call
    pub out_len: usize,
    /// bytes of input supplied (consumed) so far
    pub in_len: usize,
    /// the property's side conditions hold: nothing was pending before, the call consumed all
    /// offered input and left output space unused
    pub qualifies: bool,
    pub unwritten_bits: u32,
}

#[derive(Clone, Debug, Default)]
pub struct CompRun {
    pub out: Vec<u8>,
    pub calls: u64,
    pub finish_calls: u64,
    /// some call returned with its output buffer completely full while work remained
    pub suspended: bool,
    pub mid_flush: bool,
    pub split_input: bool,
    pub one_byte_out: bool,
    pub direct_write: bool,
    pub flush_points: Vec<FlushPoint>,
    pub consumed: usize,
    /// every call: (flush value requested, input consumed in total after the call)
    pub call_log: Vec<(u8, usize)>,
}

pub fn mz_of_tdefl(v: u8) -> MZFlush {
    match v {
        1 | 6 => MZFlush::Partial,
        2 | 5 => MZFlush::Sync,
        3 => MZFlush::Full,
        4 => MZFlush::Finish,
        _ => MZFlush::None,
    }
}

/// Run the schedule, then finish. Per-call invariants of C02/C14 that hold for every legal
/// schedule are checked here.
pub fn drive_compress(c: &mut CompressorOxide, data: &[u8], sched: &Schedule, driver: Driver) -> Result<CompRun, Violation> {
    let mut run = CompRun::default();
    let mut pos = 0usize;
    // did the previous call leave output space unused (=> nothing pending)?
    let mut prev_left_space = true;
    let mut finishing = false;
    let mut step_i = 0usize;
    let mut fin_i = 0usize;
    let bound_out = data.len() + data.len() / 8 + 1024;
    loop {
        let (take, osz, fl) = if !finishing && step_i < sched.steps.len() {
            let s = sched.steps[step_i];
            step_i += 1;
            let fl = if s.flush == 4 { 0 } else { s.flush };
            ((s.in_take as usize).min(data.len() - pos), s.out_size.max(1) as usize, fl)
        } else {
            finishing = true;
            let o = sched.finish_out[fin_i % sched.finish_out.len().max(1)].max(1) as usize;
            fin_i += 1;
            (data.len() - pos, o, 4u8)
        };
        let chunk = &data[pos..pos + take];
        if take < data.len() - pos || pos > 0 {
            run.split_input |= !data.is_empty();
        }
        run.one_byte_out |= osz == 1;
        run.direct_write |= osz >= 85196;
        let (consumed, written, done, full): (usize, usize, bool, bool);
        match driver {
            Driver::Buf => {
                let mut obuf = vec![0u8; osz];
                let r = guard(|| compress(c, chunk, &mut obuf, tdefl_flush(fl)));
                let (st, ci, co) = match r {
                    Ok(x) => x,
                    Err(pm) => return Err(Violation::new(panic_sig("compress", &pm), format!("core::compress panicked: {pm}"))),
                };
                if ci > chunk.len() || co > osz {
                    return Err(Violation::new("comp:counts", format!("compress reported in {ci}/{} out {co}/{osz}", chunk.len())));
                }
                if st == TDEFLStatus::BadParam || st == TDEFLStatus::PutBufFailed {
                    return Err(Violation::new("comp:error-status-on-legal-schedule", format!("compress returned {st:?} (flush {fl}, in {}, out {osz})", chunk.len())));
                }
                if st == TDEFLStatus::Done && fl != 4 {
                    return Err(Violation::new("comp:done-without-finish", "Done reported on a non-Finish call".to_string()));
                }
                run.out.extend_from_slice(&obuf[..co]);
                consumed = ci;
                written = co;
                done = st == TDEFLStatus::Done;
                full = co == osz;
            }
            Driver::Callback => {
                let mut acc: Vec<u8> = Vec::new();
                let r = guard(|| {
                    compress_to_output(c, chunk, tdefl_flush(fl), |b: &[u8]| {
                        acc.extend_from_slice(b);
                        true
                    })
                });
                let (st, ci) = match r {
                    Ok(x) => x,
                    Err(pm) => return Err(Violation::new(panic_sig("compress_to_output", &pm), format!("core::compress_to_output panicked: {pm}"))),
                };
                if ci > chunk.len() {
                    return Err(Violation::new("comp:counts", format!("compress_to_output reported in {ci}/{}", chunk.len())));
                }
                if st == TDEFLStatus::BadParam || st == TDEFLStatus::PutBufFailed {
                    return Err(Violation::new("comp:error-status-on-legal-schedule", format!("compress_to_output returned {st:?} (flush {fl})")));
                }
                if ci != chunk.len() {
                    return Err(Violation::new("comp:callback-input-left", format!("callback sink accepts everything, yet only {ci}/{} consumed", chunk.len())));
                }
                written = acc.len();
                run.out.extend_from_slice(&acc);
                consumed = ci;
                done = st == TDEFLStatus::Done;
                full = false;
            }
            Driver::Stream => {
                let mut obuf = vec![0u8; osz];
                let mzf = mz_of_tdefl(fl);
                let r = guard(|| deflate(c, chunk, &mut obuf, mzf));
                let res = match r {
                    Ok(x) => x,
                    Err(pm) => return Err(Violation::new(panic_sig("deflate", &pm), format!("stream::deflate panicked: {pm}"))),
                };
                if res.bytes_consumed > chunk.len() || res.bytes_written > osz {
                    return Err(Violation::new("comp:counts", format!("deflate reported in {}/{} out {}/{osz}", res.bytes_consumed, chunk.len(), res.bytes_written)));
                }
                match res.status {
                    Ok(MZStatus::Ok) | Ok(MZStatus::StreamEnd) => {}
                    // nothing to do: no input, no flush, nothing pending
                    Err(MZError::Buf) if chunk.is_empty() && mzf == MZFlush::None && res.bytes_written == 0 => {}
                    other => return Err(Violation::new("comp:error-status-on-legal-schedule", format!("deflate returned {other:?} (flush {mzf:?}, in {}, out {osz})", chunk.len()))),
                }
                if res.status == Ok(MZStatus::StreamEnd) && mzf != MZFlush::Finish {
                    return Err(Violation::new("comp:done-without-finish", "StreamEnd reported on a non-Finish call".to_string()));
                }
                run.out.extend_from_slice(&obuf[..res.bytes_written]);
                consumed = res.bytes_consumed;
                written = res.bytes_written;
                done = res.status == Ok(MZStatus::StreamEnd);
                full = res.bytes_written == osz;
            }
        }
        run.calls += 1;
        pos += consumed;
        run.call_log.push((fl, pos));
        if fl != 0 && fl != 4 {
            run.mid_flush = true;
            let qualifies = prev_left_space && consumed == chunk.len() && !full;
            run.flush_points.push(FlushPoint { flush: fl, out_len: run.out.len(), in_len: pos, qualifies, unwritten_bits: c.unwritten_bit_count() });
        }
        if full && !done {
            run.suspended = true;
        }
        prev_left_space = !full;
        if finishing {
            run.finish_calls += 1;
            if !done && written == 0 && consumed == 0 {
                return Err(Violation::new("comp:finish-no-progress", format!("Finish call made no progress and did not report completion (out size {osz})")));
            }
            if run.finish_calls > (bound_out + data.len() + 64) as u64 {
                return Err(Violation::new("comp:finish-not-terminating", "finishing phase exceeded its call bound".to_string()));
            }
        }
        if done {
            run.consumed = pos;
            if pos != data.len() {
                return Err(Violation::new("comp:done-with-input-left", format!("Done with {} of {} input bytes consumed", pos, data.len())));
            }
            return Ok(run);
        }
    }
}

pub fn flush_is_finish(f: TDEFLFlush) -> bool {
    f == TDEFLFlush::Finish
}
