//! Buffers that abut PROT_NONE guard pages (C17): any access outside the declared range faults.

pub struct GuardBuf {
    base: *mut u8,
    map_len: usize,
    ptr: *mut u8,
    len: usize,
}

#[derive(Clone, Copy, Debug, PartialEq, Eq)]
pub enum Align {
    /// last byte of the buffer is the last byte before the trailing guard page
    End,
    /// first byte of the buffer directly follows the leading guard page
    Start,
}

const PAGE: usize = 4096;

impl GuardBuf {
    pub fn new(len: usize, align: Align) -> GuardBuf {
        let pages = len.div_ceil(PAGE).max(1);
        let map_len = (pages + 2) * PAGE;
        // SAFETY: fresh anonymous private mapping
        let base = unsafe { libc::mmap(std::ptr::null_mut(), map_len, libc::PROT_READ | libc::PROT_WRITE, libc::MAP_PRIVATE | libc::MAP_ANONYMOUS, -1, 0) };
        assert!(base != libc::MAP_FAILED, "mmap failed");
        let base = base as *mut u8;
        // SAFETY: both ranges are inside the mapping just created
        unsafe {
            assert_eq!(libc::mprotect(base as *mut _, PAGE, libc::PROT_NONE), 0);
            assert_eq!(libc::mprotect(base.add((pages + 1) * PAGE) as *mut _, PAGE, libc::PROT_NONE), 0);
        }
        let ptr = match align {
            // SAFETY: stays inside the accessible middle part (or exactly at the guard for len 0)
            Align::End => unsafe { base.add((pages + 1) * PAGE - len) },
            Align::Start => unsafe { base.add(PAGE) },
        };
        GuardBuf { base, map_len, ptr, len }
    }
    pub fn from_slice(data: &[u8], align: Align) -> GuardBuf {
        let g = GuardBuf::new(data.len(), align);
        // SAFETY: g.ptr..g.ptr+len is accessible
        unsafe { std::ptr::copy_nonoverlapping(data.as_ptr(), g.ptr, data.len()) };
        g
    }
    pub fn ptr(&self) -> *mut u8 {
        self.ptr
    }
    pub fn len(&self) -> usize {
        self.len
    }
    pub fn is_empty(&self) -> bool {
        self.len == 0
    }
    pub fn as_slice(&self) -> &[u8] {
        // SAFETY: accessible range owned by self
        unsafe { std::slice::from_raw_parts(self.ptr, self.len) }
    }
    pub fn as_mut_slice(&mut self) -> &mut [u8] {
        // SAFETY: accessible range owned by self
        unsafe { std::slice::from_raw_parts_mut(self.ptr, self.len) }
    }
    pub fn fill(&mut self, b: u8) {
        self.as_mut_slice().iter_mut().for_each(|x| *x = b);
    }
}

impl Drop for GuardBuf {
    fn drop(&mut self) {
        // SAFETY: unmapping exactly what was mapped
        unsafe { libc::munmap(self.base as *mut _, self.map_len) };
    }
}
