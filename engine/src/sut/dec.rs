//! Drivers for the low-level decoder and the inflate() wrapper.

use super::*;
use crate::oracle::sums::splitmix64;
use crate::runner::{guard, panic_sig, Violation};
use miniz_oxide::inflate::stream::{inflate, InflateState};
use miniz_oxide::{DataFormat, MZError, MZFlush, MZStatus};
use serde::{Deserialize, Serialize};

#[derive(Clone, Copy, Debug, Serialize, Deserialize, PartialEq, Eq)]
pub enum BufMode {
    /// flat (non-wrapping) buffer of `cap` bytes
    Flat { cap: usize },
    /// ring of 2^bits bytes, pre-filled from `fill_seed`, first out_pos = start % size
    Ring { bits: u8, start: u32, fill_seed: u64 },
}

pub fn ring_fill(bits: u8, seed: u64) -> Vec<u8> {
    let n = 1usize << bits;
    let mut s = seed;
    let mut v = Vec::with_capacity(n);
    while v.len() < n {
        let x = splitmix64(&mut s).to_le_bytes();
        let k = (n - v.len()).min(8);
        v.extend_from_slice(&x[..k]);
    }
    if seed == 0 {
        v.iter_mut().for_each(|b| *b = 0);
    }
    v
}

#[derive(Clone, Debug, Default, Serialize, Deserialize, PartialEq, Eq)]
pub struct DecSched {
    /// sizes of successive input chunks (0 allowed); after the list is exhausted: everything
    pub chunks: Vec<u32>,
    /// per-call output budgets (decompress_with_limit); after the list is exhausted: unlimited
    pub budgets: Vec<u32>,
}

#[derive(Clone, Debug)]
pub struct DecRun {
    pub status: TINFLStatus,
    pub consumed: usize,
    pub out: Vec<u8>,
    pub calls: u64,
    /// (state id, status) observed at each return that was not final
    pub suspensions: Vec<(u8, TINFLStatus)>,
    pub final_state: u8,
    /// flat buffer filled up before the stream ended
    pub out_of_space: bool,
    /// number of BlockBoundary stops
    pub boundaries: u64,
}

pub struct CallInfo<'a> {
    pub status: TINFLStatus,
    pub consumed: usize,
    pub written: usize,
    pub total_in: usize,
    pub total_out: usize,
    pub out_so_far: &'a [u8],
    /// the caller-owned output buffer (mutable so that a hook can emulate 'a new buffer holding only
    /// the last 32 KiB')
    pub buf: &'a mut [u8],
    pub out_pos_after: usize,
    pub flat: bool,
}

pub struct DriveOpts<'a> {
    pub flags: u32,
    pub mode: BufMode,
    pub sched: &'a DecSched,
    /// verify bytes outside the granted region are untouched (C08); costs O(buffer) per call
    pub canary: bool,
    /// stop after this many calls even if not finished (None = run to a terminal status)
    pub max_calls: Option<u64>,
    /// set HAS_MORE_INPUT on every call that does not offer the last byte
    pub announce: bool,
    /// flat mode: decode into buf[flat_start..] (the bytes before it must stay untouched)
    pub flat_start: usize,
    /// ring mode: when the ring is full, first call once more with out_pos == len (an empty but legal
    /// region) before wrapping to 0
    pub probe_full_ring: bool,
}

/// Drive `decompress_with_limit` over `data` with a schedule. Checks the per-call invariants
/// common to C03/C05/C07/C08; `hook` sees the decoder after every call.
pub fn drive(r: &mut DecompressorOxide, data: &[u8], o: &DriveOpts, mut hook: impl FnMut(&mut DecompressorOxide, &mut CallInfo) -> Result<(), Violation>) -> Result<DecRun, Violation> {
    let (mut buf, mut out_pos, flat, extra) = match o.mode {
        BufMode::Flat { cap } => {
            let mut b = ring_fill(0, 1);
            b.clear();
            let mut s = 0x1234_5678u64 ^ cap as u64;
            b.extend((0..cap + o.flat_start).map(|_| splitmix64(&mut s) as u8));
            (b, o.flat_start, true, TINFL_FLAG_USING_NON_WRAPPING_OUTPUT_BUF)
        }
        BufMode::Ring { bits, start, fill_seed } => {
            let b = ring_fill(bits, fill_seed);
            let st = start as usize % b.len();
            (b, st, false, 0)
        }
    };
    let flags_base = (o.flags & !TINFL_FLAG_USING_NON_WRAPPING_OUTPUT_BUF & !TINFL_FLAG_HAS_MORE_INPUT) | extra;
    let mut out: Vec<u8> = Vec::new();
    let mut pos = 0usize;
    let mut ci = 0usize;
    let mut bi = 0usize;
    let mut avail_end = if o.sched.chunks.is_empty() { data.len() } else { (o.sched.chunks[0] as usize).min(data.len()) };
    ci += 1;
    let mut calls = 0u64;
    let mut susp = Vec::new();
    let mut boundaries = 0;
    let bound = (data.len() as u64) * 2 + (o.sched.chunks.len() + o.sched.budgets.len()) as u64 * 2 + 64;
    let mut out_bound_extra = 0u64;
    let mut shadow: Vec<u8> = Vec::new();
    let mut probed_here = false;
    loop {
        let chunk = &data[pos..avail_end];
        let has_more = o.announce && avail_end < data.len();
        let budget = if bi < o.sched.budgets.len() { o.sched.budgets[bi] as usize } else { usize::MAX };
        bi += 1;
        let flags = flags_base | if has_more { TINFL_FLAG_HAS_MORE_INPUT } else { 0 };
        if o.canary {
            shadow.clear();
            shadow.extend_from_slice(&buf);
        }
        let before = out_pos;
        let res = guard(|| decompress_with_limit(r, chunk, &mut buf, before, budget, flags));
        let (st, c, w) = match res {
            Ok(x) => x,
            Err(pm) => return Err(Violation::new(panic_sig("decompress", &pm), format!("decompress_with_limit panicked: {pm} (in {} bytes, out_pos {before}, budget {budget}, flags {flags:#x}, mode {:?})", chunk.len(), o.mode))),
        };
        calls += 1;
        let space = buf.len() - before;
        let granted = space.min(budget);
        if c > chunk.len() {
            return Err(Violation::new("dec:consumed>offered", format!("consumed {c} of {} offered", chunk.len())));
        }
        if w > granted {
            return Err(Violation::new("dec:written>granted", format!("written {w} > granted {granted} (space {space}, budget {budget})")));
        }
        if st == TINFLStatus::HasMoreOutput && w != granted {
            return Err(Violation::new("dec:HasMoreOutput-not-full", format!("HasMoreOutput with {w} written of {granted} granted")));
        }
        if st == TINFLStatus::NeedsMoreInput && c != chunk.len() {
            return Err(Violation::new("dec:NeedsMoreInput-input-left", format!("NeedsMoreInput with {c} consumed of {}", chunk.len())));
        }
        if st == TINFLStatus::NeedsMoreInput && !has_more {
            return Err(Violation::new("dec:NeedsMoreInput-without-flag", "NeedsMoreInput although no more input was announced".to_string()));
        }
        if st == TINFLStatus::BadParam {
            return Err(Violation::new("dec:BadParam-on-usable-geometry", format!("BadParam for buffer len {} out_pos {before}", buf.len())));
        }
        if o.canary {
            if buf[..before] != shadow[..before] {
                return Err(Violation::new("dec:write-before-out_pos", format!("bytes before out_pos {before} changed (mode {:?})", o.mode)));
            }
            if buf[before + w..] != shadow[before + w..] {
                let off = (before + w..buf.len()).find(|&i| buf[i] != shadow[i]).unwrap();
                return Err(Violation::new("dec:write-past-granted", format!("byte at {off} changed; region was [{before}, {}) granted {granted} (mode {:?})", before + w, o.mode)));
            }
        }
        out.extend_from_slice(&buf[before..before + w]);
        pos += c;
        out_pos += w;
        out_bound_extra += w as u64;
        {
            let mut info = CallInfo { status: st, consumed: c, written: w, total_in: pos, total_out: out.len(), out_so_far: &out, buf: &mut buf, out_pos_after: out_pos, flat };
            hook(r, &mut info)?;
        }
        let state = r.verif_state();
        if st == TINFLStatus::BlockBoundary {
            boundaries += 1;
        }
        let fin = |status, out: Vec<u8>, oos| DecRun { status, consumed: pos, out, calls, suspensions: Vec::new(), final_state: 0, out_of_space: oos, boundaries };
        match st {
            TINFLStatus::NeedsMoreInput => {
                susp.push((state, st));
                // next chunk
                let add = if ci < o.sched.chunks.len() { o.sched.chunks[ci] as usize } else { usize::MAX };
                ci += 1;
                avail_end = avail_end.saturating_add(add).min(data.len());
            }
            TINFLStatus::HasMoreOutput => {
                susp.push((state, st));
                if out_pos == buf.len() {
                    if flat {
                        let mut d = fin(st, out, true);
                        d.suspensions = susp;
                        d.final_state = state;
                        return Ok(d);
                    }
                    if o.probe_full_ring && !probed_here {
                        // do not wrap yet: the next call is made on the empty region at the end of the ring
                        probed_here = true;
                    } else {
                        out_pos = 0;
                        probed_here = false;
                    }
                }
            }
            TINFLStatus::BlockBoundary => {
                susp.push((state, st));
            }
            _ => {
                let mut d = fin(st, out, false);
                d.suspensions = susp;
                d.final_state = state;
                return Ok(d);
            }
        }
        if let Some(m) = o.max_calls {
            if calls >= m {
                let mut d = fin(st, out, false);
                d.suspensions = susp;
                d.final_state = state;
                return Ok(d);
            }
        }
        // (with probe_full_ring every ring turn costs one extra call)
        if calls > bound + out_bound_extra * (1 + o.probe_full_ring as u64) {
            return Err(Violation::new("dec:driver-no-progress", format!("driver loop exceeded {} calls (in {} bytes, out so far {})", bound + out_bound_extra, data.len(), out_bound_extra)));
        }
    }
}

pub fn plain_hook(_: &mut DecompressorOxide, _: &mut CallInfo) -> Result<(), Violation> {
    Ok(())
}

/// one call, flat buffer of `cap`, everything offered, no more input announced
pub fn flat_oneshot(data: &[u8], flags: u32, cap: usize) -> Result<DecRun, Violation> {
    let mut r = DecompressorOxide::new();
    let s = DecSched::default();
    drive(&mut r, data, &DriveOpts { flags, mode: BufMode::Flat { cap }, sched: &s, canary: false, max_calls: None, announce: true, flat_start: 0, probe_full_ring: false }, plain_hook)
}

pub fn zflags(zlib: bool) -> u32 {
    if zlib {
        TINFL_FLAG_PARSE_ZLIB_HEADER
    } else {
        0
    }
}

// ---------------------------------------------------------------------------------------------
// inflate() wrapper

#[derive(Clone, Copy, Debug, Serialize, Deserialize, PartialEq, Eq)]
pub struct IStep {
    pub in_take: u32,
    pub out_size: u32,
    /// MZFlush as i32: 0 None, 2 Sync, 4 Finish (1 Partial, 3 Full, 5 Block where a property wants them)
    pub flush: u8,
}

pub fn mzflush(v: u8) -> MZFlush {
    match v {
        1 => MZFlush::Partial,
        2 => MZFlush::Sync,
        3 => MZFlush::Full,
        4 => MZFlush::Finish,
        5 => MZFlush::Block,
        _ => MZFlush::None,
    }
}

pub fn fmt_of(zlib: bool) -> DataFormat {
    if zlib {
        DataFormat::Zlib
    } else {
        DataFormat::Raw
    }
}

#[derive(Clone, Debug)]
pub struct InfRun {
    pub status: Result<MZStatus, MZError>,
    pub consumed: usize,
    pub out: Vec<u8>,
    pub calls: u64,
}

/// "Usual driver loop": feed chunks with flush None (or Sync), then Finish once input is exhausted
/// if `finish_at_end`; output sizes from the schedule round-robin.
pub fn inflate_loop_driver(state: &mut InflateState, data: &[u8], in_chunks: &[u32], out_sizes: &[u32], mid_flush: MZFlush, finish_at_end: bool) -> Result<InfRun, Violation> {
    let mut pos = 0usize;
    let mut out = Vec::new();
    let mut calls = 0u64;
    let mut ci = 0usize;
    let mut oi = 0usize;
    let mut avail_end = if in_chunks.is_empty() { data.len() } else { (in_chunks[0] as usize).min(data.len()) };
    ci += 1;
    let bound = data.len() as u64 * 2 + in_chunks.len() as u64 * 2 + 64;
    loop {
        let osz = if out_sizes.is_empty() { 1 << 16 } else { out_sizes[oi % out_sizes.len()].max(1) as usize };
        oi += 1;
        let mut obuf = vec![0u8; osz];
        let all_offered = avail_end == data.len();
        let flush = if all_offered && finish_at_end { MZFlush::Finish } else { mid_flush };
        let chunk = &data[pos..avail_end];
        let res = match guard(|| inflate(state, chunk, &mut obuf, flush)) {
            Ok(r) => r,
            Err(pm) => return Err(Violation::new(panic_sig("inflate", &pm), format!("inflate() panicked: {pm}"))),
        };
        calls += 1;
        if res.bytes_consumed > chunk.len() || res.bytes_written > osz {
            return Err(Violation::new("inflate:counts", format!("consumed {} of {}, written {} of {}", res.bytes_consumed, chunk.len(), res.bytes_written, osz)));
        }
        pos += res.bytes_consumed;
        out.extend_from_slice(&obuf[..res.bytes_written]);
        match res.status {
            Ok(MZStatus::StreamEnd) => return Ok(InfRun { status: res.status, consumed: pos, out, calls }),
            Ok(_) => {}
            Err(MZError::Buf) => {
                // Starved (no input offered and nothing pending) or Finish could not finish with this
                // output size: more input / more calls resolve it unless everything was offered.
                if all_offered && chunk.len() == res.bytes_consumed && res.bytes_written < osz {
                    return Ok(InfRun { status: res.status, consumed: pos, out, calls });
                }
                if flush == MZFlush::Finish && res.bytes_written == 0 && res.bytes_consumed == 0 && all_offered {
                    return Ok(InfRun { status: res.status, consumed: pos, out, calls });
                }
            }
            Err(_) => return Ok(InfRun { status: res.status, consumed: pos, out, calls }),
        }
        if pos == avail_end && !all_offered {
            let add = if ci < in_chunks.len() { in_chunks[ci] as usize } else { usize::MAX };
            ci += 1;
            avail_end = avail_end.saturating_add(add).min(data.len());
        }
        if calls > bound + out.len() as u64 * 2 {
            return Err(Violation::new("inflate:driver-no-progress", format!("driver loop exceeded its call bound ({} calls, {} in, {} out)", calls, data.len(), out.len())));
        }
    }
}
