//! Calls into the C ABI shim (miniz_oxide_c_api) the way a C caller would, with the accounting
//! invariants of C17 checked around every stream call.

use crate::runner::{guard, panic_sig, Violation};
use libc::{c_int, c_uint, c_ulong};
use miniz_oxide_c_api::*;

pub struct CapiRun {
    /// last return code
    pub status: i32,
    pub out: Vec<u8>,
    pub total_in: usize,
    pub total_out: usize,
    pub next_in_advance: usize,
    pub calls: u64,
    pub adler: u64,
    /// (ret, avail_in before, consumed, avail_out before, written, adler after) per call
    pub per_call: Vec<(i32, usize, usize, usize, usize, u64)>,
}

/// Check the mz_stream accounting around one call.
#[allow(clippy::too_many_arguments)]
pub fn check_accounting(what: &str, before: (*const u8, c_uint, c_ulong, *mut u8, c_uint, c_ulong), s: &mz_stream) -> Result<(usize, usize), Violation> {
    let (ni, ai, ti, no, ao, to) = before;
    let din = (s.next_in as usize).wrapping_sub(ni as usize);
    let dout = (s.next_out as usize).wrapping_sub(no as usize);
    let dai = ai.wrapping_sub(s.avail_in) as usize;
    let dao = ao.wrapping_sub(s.avail_out) as usize;
    let dti = s.total_in.wrapping_sub(ti) as usize;
    let dto = s.total_out.wrapping_sub(to) as usize;
    if s.avail_in > ai || s.avail_out > ao {
        return Err(Violation::new("capi:accounting", format!("{what}: avail grew: avail_in {ai}->{} avail_out {ao}->{}", s.avail_in, s.avail_out)));
    }
    if !(din == dai && dai == dti) {
        return Err(Violation::new("capi:accounting", format!("{what}: input accounting inconsistent: next_in +{din}, avail_in -{dai}, total_in +{dti}")));
    }
    if !(dout == dao && dao == dto) {
        return Err(Violation::new("capi:accounting", format!("{what}: output accounting inconsistent: next_out +{dout}, avail_out -{dao}, total_out +{dto}")));
    }
    Ok((dai, dao))
}

pub fn snap(s: &mz_stream) -> (*const u8, c_uint, c_ulong, *mut u8, c_uint, c_ulong) {
    (s.next_in, s.avail_in, s.total_in, s.next_out, s.avail_out, s.total_out)
}

/// mz_inflateInit2 + loop of mz_inflate(MZ_NO_FLUSH) + mz_inflateEnd
pub fn mz_inflate_run(data: &[u8], zlib: bool, in_chunks: &[u32], out_sizes: &[u32], out_cap: usize) -> Result<CapiRun, Violation> {
    mz_inflate_run_f(data, zlib, in_chunks, out_sizes, out_cap, false)
}

/// as above; with `finish` the calls made once all input has been offered use MZ_FINISH (unless that
/// would be the very first call)
pub fn mz_inflate_run_f(data: &[u8], zlib: bool, in_chunks: &[u32], out_sizes: &[u32], out_cap: usize, finish: bool) -> Result<CapiRun, Violation> {
    let mut s = mz_stream::default();
    // SAFETY: s is a valid zeroed stream object
    let rc = unsafe { mz_inflateInit2(&mut s, if zlib { 15 } else { -15 }) };
    if rc != 0 {
        return Err(Violation::new("capi:init", format!("mz_inflateInit2 returned {rc}")));
    }
    let mut out = vec![0u8; out_cap];
    let mut opos = 0usize;
    let mut ipos = 0usize;
    let mut ci = 0usize;
    let mut oi = 0usize;
    let mut avail_end = if in_chunks.is_empty() { data.len() } else { (in_chunks[0] as usize).min(data.len()) };
    ci += 1;
    let mut run = CapiRun { status: 0, out: Vec::new(), total_in: 0, total_out: 0, next_in_advance: 0, calls: 0, adler: 0, per_call: Vec::new() };
    let bound = data.len() as u64 * 2 + in_chunks.len() as u64 * 2 + out_cap as u64 * 2 + 64;
    loop {
        let osz = if out_sizes.is_empty() { out_cap - opos } else { (out_sizes[oi % out_sizes.len()].max(1) as usize).min(out_cap - opos) };
        oi += 1;
        s.next_in = data[ipos..].as_ptr();
        s.avail_in = (avail_end - ipos) as c_uint;
        s.next_out = out[opos..].as_mut_ptr();
        s.avail_out = osz as c_uint;
        let before = snap(&s);
        // SAFETY: pointers and lengths describe live buffers
        let fl = if finish && avail_end == data.len() && run.calls > 0 { 4 } else { 0 };
        let rc = guard(|| unsafe { mz_inflate(&mut s, fl) }).map_err(|pm| Violation::new(panic_sig("mz_inflate", &pm), format!("mz_inflate unwound: {pm}")))?;
        let (din, dout) = check_accounting("mz_inflate", before, &s)?;
        run.calls += 1;
        run.per_call.push((rc, before.1 as usize, din, before.4 as usize, dout, s.adler as u64));
        ipos += din;
        opos += dout;
        run.status = rc;
        let all_offered = avail_end == data.len();
        if rc == 1 {
            break;
        }
        if rc < 0 && rc != -5 {
            break;
        }
        if rc == -5 && all_offered && ipos == avail_end && dout < osz && (din == 0 && dout == 0 || fl == 0) {
            break;
        }
        if opos == out_cap {
            break;
        }
        if ipos == avail_end && !all_offered {
            let add = if ci < in_chunks.len() { in_chunks[ci] as usize } else { usize::MAX };
            ci += 1;
            avail_end = avail_end.saturating_add(add).min(data.len());
        }
        if run.calls > bound {
            return Err(Violation::new("capi:driver-no-progress", "mz_inflate loop exceeded its call bound".to_string()));
        }
    }
    run.total_in = s.total_in as usize;
    run.total_out = s.total_out as usize;
    run.next_in_advance = ipos;
    run.adler = s.adler as u64;
    out.truncate(opos);
    run.out = out;
    // SAFETY: stream was initialised above
    unsafe { mz_inflateEnd(&mut s) };
    Ok(run)
}

/// one tinfl_decompress call: returns (status, in consumed, out written)
pub fn tinfl_decompress_once(data: &[u8], flags: u32, cap: usize) -> Result<(i32, usize, usize), Violation> {
    let mut d = tinfl_decompressor::default();
    let mut out = vec![0u8; cap.max(1)];
    let mut in_sz = data.len();
    let mut out_sz = cap;
    let p = out.as_mut_ptr();
    // SAFETY: all pointers describe live buffers of the stated sizes
    let st = guard(|| unsafe { tinfl_decompress(&mut d, data.as_ptr(), &mut in_sz, p, p, &mut out_sz, flags) }).map_err(|pm| Violation::new(panic_sig("tinfl_decompress", &pm), format!("tinfl_decompress unwound: {pm}")))?;
    Ok((st, in_sz, out_sz))
}

pub fn c_int_of(v: i32) -> c_int {
    v as c_int
}

/// mz_deflateInit2 + scheduled mz_deflate calls + Finish loop + mz_deflateEnd.
/// steps: (avail_in offered, avail_out, flush value as C int)
pub fn mz_deflate_run(data: &[u8], level: i32, window_bits: i32, strategy: i32, steps: &[(u32, u32, i32)], finish_out: u32) -> Result<CapiRun, Violation> {
    let mut s = mz_stream::default();
    // SAFETY: s is a valid zeroed stream object
    let rc = unsafe { mz_deflateInit2(&mut s, level, 8, window_bits, 9, strategy) };
    if rc != 0 {
        return Err(Violation::new("capi:init", format!("mz_deflateInit2({level}, 8, {window_bits}, 9, {strategy}) returned {rc}")));
    }
    let mut run = CapiRun { status: 0, out: Vec::new(), total_in: 0, total_out: 0, next_in_advance: 0, calls: 0, adler: 0, per_call: Vec::new() };
    let mut ipos = 0usize;
    let mut i = 0usize;
    let bound = data.len() as u64 * 2 + steps.len() as u64 + (data.len() as u64 + 1024) / finish_out.max(1) as u64 + 4096;
    loop {
        let (take, osz, fl) = if i < steps.len() { let (a, b, f) = steps[i]; ((a as usize).min(data.len() - ipos), b.max(1) as usize, if f == 4 { 0 } else { f }) } else { (data.len() - ipos, finish_out.max(1) as usize, 4) };
        i += 1;
        let mut ob = vec![0u8; osz];
        s.next_in = data[ipos..].as_ptr();
        s.avail_in = take as c_uint;
        s.next_out = ob.as_mut_ptr();
        s.avail_out = osz as c_uint;
        let before = snap(&s);
        // SAFETY: pointers/lengths describe live buffers
        let rc = guard(|| unsafe { mz_deflate(&mut s, fl) }).map_err(|pm| Violation::new(panic_sig("mz_deflate", &pm), format!("mz_deflate unwound: {pm}")))?;
        let (din, dout) = check_accounting("mz_deflate", before, &s)?;
        run.calls += 1;
        run.per_call.push((rc, take, din, osz, dout, s.adler as u64));
        run.out.extend_from_slice(&ob[..dout]);
        ipos += din;
        run.status = rc;
        if rc == 1 {
            break;
        }
        if rc < 0 && rc != -5 {
            break;
        }
        if run.calls > bound {
            return Err(Violation::new("capi:driver-no-progress", "mz_deflate loop exceeded its call bound".to_string()));
        }
    }
    run.total_in = s.total_in as usize;
    run.total_out = s.total_out as usize;
    run.next_in_advance = ipos;
    run.adler = s.adler as u64;
    // SAFETY: initialised above
    unsafe { mz_deflateEnd(&mut s) };
    Ok(run)
}

pub fn c_adler32(start: u32, data: Option<&[u8]>) -> u32 {
    // SAFETY: pointer/len from a live slice, or null with len 0
    unsafe {
        match data {
            Some(d) => mz_adler32(start as c_ulong, d.as_ptr(), d.len()) as u32,
            None => mz_adler32(start as c_ulong, std::ptr::null(), 0) as u32,
        }
    }
}

pub fn c_crc32(start: u32, data: Option<&[u8]>) -> u32 {
    // SAFETY: as above
    unsafe {
        match data {
            Some(d) => mz_crc32(start as c_ulong, d.as_ptr(), d.len()) as u32,
            None => mz_crc32(start as c_ulong, std::ptr::null(), 0) as u32,
        }
    }
}

/// history on an mz_stream (no Finish), mz_deflateReset, then the workload as in mz_deflate_run
pub fn mz_deflate_reset_run(xh: &[u8], steps_h: &[(u32, u32, i32)], xw: &[u8], steps_w: &[(u32, u32, i32)], level: i32, window_bits: i32, strategy: i32) -> Result<CapiRun, Violation> {
    let mut s = mz_stream::default();
    // SAFETY: valid zeroed stream
    let rc = unsafe { mz_deflateInit2(&mut s, level, 8, window_bits, 9, strategy) };
    if rc != 0 {
        return Err(Violation::new("capi:init", format!("mz_deflateInit2 returned {rc}")));
    }
    let mut ipos = 0usize;
    for &(a, b, f) in steps_h {
        let take = (a as usize).min(xh.len() - ipos);
        let mut ob = vec![0u8; b.max(1) as usize];
        s.next_in = xh[ipos..].as_ptr();
        s.avail_in = take as c_uint;
        s.next_out = ob.as_mut_ptr();
        s.avail_out = ob.len() as c_uint;
        let before = snap(&s);
        // SAFETY: live buffers
        let _ = guard(|| unsafe { mz_deflate(&mut s, if f == 4 { 0 } else { f }) }).map_err(|pm| Violation::new(panic_sig("mz_deflate", &pm), format!("mz_deflate unwound: {pm}")))?;
        let (din, _) = check_accounting("mz_deflate", before, &s)?;
        ipos += din;
    }
    // SAFETY: initialised stream
    let rc = unsafe { mz_deflateReset(&mut s) };
    if rc != 0 {
        return Err(Violation::new("capi:reset", format!("mz_deflateReset returned {rc}")));
    }
    let mut run = CapiRun { status: 0, out: Vec::new(), total_in: 0, total_out: 0, next_in_advance: 0, calls: 0, adler: 0, per_call: Vec::new() };
    let mut ipos = 0usize;
    let mut i = 0usize;
    loop {
        let (take, osz, fl) = if i < steps_w.len() { let (a, b, f) = steps_w[i]; ((a as usize).min(xw.len() - ipos), b.max(1) as usize, if f == 4 { 0 } else { f }) } else { (xw.len() - ipos, 300usize, 4) };
        i += 1;
        let mut ob = vec![0u8; osz];
        s.next_in = xw[ipos..].as_ptr();
        s.avail_in = take as c_uint;
        s.next_out = ob.as_mut_ptr();
        s.avail_out = osz as c_uint;
        let before = snap(&s);
        // SAFETY: live buffers
        let rc = guard(|| unsafe { mz_deflate(&mut s, fl) }).map_err(|pm| Violation::new(panic_sig("mz_deflate", &pm), format!("mz_deflate unwound: {pm}")))?;
        let (din, dout) = check_accounting("mz_deflate", before, &s)?;
        run.calls += 1;
        run.per_call.push((rc, take, din, osz, dout, s.adler as u64));
        run.out.extend_from_slice(&ob[..dout]);
        ipos += din;
        run.status = rc;
        if rc == 1 || (rc < 0 && rc != -5) || run.calls > xw.len() as u64 * 2 + 100_000 {
            break;
        }
    }
    run.total_in = s.total_in as usize;
    run.total_out = s.total_out as usize;
    run.adler = s.adler as u64;
    // SAFETY: initialised stream
    unsafe { mz_deflateEnd(&mut s) };
    Ok(run)
}

pub fn compress_bound(n: usize) -> usize {
    mz_compressBound(n as c_ulong) as usize
}

pub fn deflate_bound(n: usize) -> usize {
    mz_deflateBound(std::ptr::null_mut(), n as c_ulong) as usize
}

/// mz_compress2 into a destination of exactly `dest_len` bytes: (return code, bytes written)
pub fn compress2(data: &[u8], level: i32, dest_len: usize) -> Result<(i32, usize), Violation> {
    let mut dest = vec![0u8; dest_len.max(1)];
    let mut dl = dest_len as c_ulong;
    // SAFETY: live buffers of the stated sizes
    let rc = guard(|| unsafe { mz_compress2(dest.as_mut_ptr(), &mut dl, data.as_ptr(), data.len() as c_ulong, level) }).map_err(|pm| Violation::new(panic_sig("mz_compress2", &pm), format!("mz_compress2 unwound: {pm}")))?;
    Ok((rc, dl as usize))
}

/// one mz_deflate(MZ_FINISH) call with a huge output buffer: (return code, total_out)
pub fn deflate_finish_once(data: &[u8], level: i32, strategy: i32, out_cap: usize) -> Result<(i32, usize), Violation> {
    let r = deflate_finish_once_ex(data, level, strategy, out_cap, false)?;
    Ok((r.0, r.1))
}

/// as above; also returns the bytes actually written (next_out advance) and mz_deflateBound asked of
/// the initialised stream itself. `reuse`: the mz_stream object has been through a complete
/// Init / deflate(FINISH) / End cycle before (second use of the same object).
pub fn deflate_finish_once_ex(data: &[u8], level: i32, strategy: i32, out_cap: usize, reuse: bool) -> Result<(i32, usize, usize, usize), Violation> {
    let mut s = mz_stream::default();
    let mut out = vec![0u8; out_cap];
    if reuse {
        // SAFETY: valid zeroed stream, live buffers
        unsafe {
            let rc = mz_deflateInit2(&mut s, level, 8, 15, 9, strategy);
            if rc != 0 {
                return Err(Violation::new("capi:init", format!("mz_deflateInit2({level}, strategy {strategy}) returned {rc}")));
            }
            let first = &data[..data.len().min(700)];
            s.next_in = first.as_ptr();
            s.avail_in = first.len() as c_uint;
            s.next_out = out.as_mut_ptr();
            s.avail_out = out_cap as c_uint;
            let rc = mz_deflate(&mut s, 4);
            if rc != 1 {
                return Err(Violation::new("capi:first-use", format!("first use of the stream object: mz_deflate(MZ_FINISH) returned {rc}")));
            }
            mz_deflateEnd(&mut s);
        }
    }
    // SAFETY: valid stream object (zeroed, or ended by mz_deflateEnd)
    let rc = unsafe { mz_deflateInit2(&mut s, level, 8, 15, 9, strategy) };
    if rc != 0 {
        return Err(Violation::new("capi:init", format!("mz_deflateInit2({level}, strategy {strategy}) returned {rc}")));
    }
    let bound_s = mz_deflateBound(&mut s, data.len() as c_ulong) as usize;
    s.next_in = data.as_ptr();
    s.avail_in = data.len() as c_uint;
    s.next_out = out.as_mut_ptr();
    s.avail_out = out_cap as c_uint;
    // SAFETY: live buffers
    let rc = guard(|| unsafe { mz_deflate(&mut s, 4) }).map_err(|pm| Violation::new(panic_sig("mz_deflate", &pm), format!("mz_deflate unwound: {pm}")))?;
    let t = s.total_out as usize;
    let written = s.next_out as usize - out.as_ptr() as usize;
    // SAFETY: initialised stream
    unsafe { mz_deflateEnd(&mut s) };
    Ok((rc, t, written, bound_s))
}

// exported (no_mangle) by the shim but not re-exported as Rust paths: reached the way a C caller does
#[allow(improper_ctypes)]
extern "C" {
    pub fn tinfl_decompressor_alloc() -> *mut tinfl_decompressor;
    pub fn tinfl_decompressor_free(c: *mut tinfl_decompressor);
    pub fn tinfl_init(c: *mut tinfl_decompressor);
    pub fn tinfl_get_adler32(c: *mut tinfl_decompressor) -> c_int;
}
