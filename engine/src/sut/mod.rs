//! Adapters around the crate's entry points ("system under test" drivers), with the per-call
//! invariants every property shares checked in one place.

pub mod dec;
pub mod capi;
pub mod comp;
pub mod guardbuf;

pub use miniz_oxide::inflate::core::inflate_flags::*;
pub use miniz_oxide::inflate::core::{decompress, decompress_with_limit, DecompressorOxide};
pub use miniz_oxide::inflate::TINFLStatus;

pub const STATE_NAMES: [&str; 35] = [
    "Start", "ReadZlibCmf", "ReadZlibFlg", "ReadBlockHeader", "BlockTypeNoCompression", "RawHeader", "RawMemcpy1", "RawMemcpy2", "ReadTableSizes", "ReadHufflenTableCodeSize", "ReadLitlenDistTablesCodeSize", "ReadExtraBitsCodeSize",
    "DecodeLitlen", "WriteSymbol", "ReadExtraBitsLitlen", "DecodeDistance", "ReadExtraBitsDistance", "RawReadFirstByte", "RawStoreFirstByte", "WriteLenBytesToEnd", "BlockDone", "HuffDecodeOuterLoop1", "HuffDecodeOuterLoop2",
    "ReadAdler32", "DoneForever", "BlockTypeUnexpected", "BadCodeSizeSum", "BadDistOrLiteralTableLength", "BadTotalSymbols", "BadZlibHeader", "DistanceOutOfBounds", "BadRawLength", "BadCodeSizeDistPrevLookup", "InvalidLitlen", "InvalidDist",
];

pub fn state_name(s: u8) -> &'static str {
    STATE_NAMES.get(s as usize).copied().unwrap_or("?")
}

pub fn status_name(s: TINFLStatus) -> &'static str {
    match s {
        TINFLStatus::FailedCannotMakeProgress => "FailedCannotMakeProgress",
        TINFLStatus::BadParam => "BadParam",
        TINFLStatus::Adler32Mismatch => "Adler32Mismatch",
        TINFLStatus::Failed => "Failed",
        TINFLStatus::Done => "Done",
        TINFLStatus::NeedsMoreInput => "NeedsMoreInput",
        TINFLStatus::HasMoreOutput => "HasMoreOutput",
        TINFLStatus::BlockBoundary => "BlockBoundary",
        _ => "?",
    }
}
