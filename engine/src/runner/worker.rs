use super::*;
use proptest::strategy::{Strategy, ValueTree};
use proptest::test_runner::{Config, RngAlgorithm, TestRng, TestRunner};
use std::path::PathBuf;

pub struct WorkerArgs {
    pub tier: Tier,
    pub seed: u64,
    pub widx: usize,
    pub nworkers: usize,
    pub profile: String,
    pub out: PathBuf,
    pub journal: Option<PathBuf>,
    /// random cases for this worker
    pub cases: u64,
    /// run the fixed (enumerated) cases assigned to this worker
    pub do_fixed: bool,
    pub do_selfcheck: bool,
}

pub struct Journal {
    ptr: *mut u64,
}

impl Journal {
    pub fn open(p: &Option<PathBuf>) -> Journal {
        let Some(p) = p else { return Journal { ptr: std::ptr::null_mut() } };
        use std::os::unix::io::AsRawFd;
        let f = std::fs::OpenOptions::new().read(true).write(true).create(true).truncate(false).open(p).expect("journal open");
        f.set_len(64).expect("journal len");
        // SAFETY: plain shared mapping of a 64-byte file we own
        let ptr = unsafe { libc::mmap(std::ptr::null_mut(), 64, libc::PROT_READ | libc::PROT_WRITE, libc::MAP_SHARED, f.as_raw_fd(), 0) };
        assert!(ptr != libc::MAP_FAILED);
        Journal { ptr: ptr as *mut u64 }
    }
    /// kind: 0 fixed, 1 random, 2 self-check, 3 done
    pub fn set(&self, kind: u64, idx: u64) {
        if self.ptr.is_null() {
            return;
        }
        // SAFETY: 64-byte mapping, 8-byte aligned
        unsafe {
            let seq = std::ptr::read_volatile(self.ptr.add(2));
            std::ptr::write_volatile(self.ptr, kind);
            std::ptr::write_volatile(self.ptr.add(1), idx);
            std::ptr::write_volatile(self.ptr.add(2), seq + 1);
        }
    }
}

pub fn read_journal(p: &std::path::Path) -> Option<(u64, u64, u64)> {
    let b = std::fs::read(p).ok()?;
    if b.len() < 24 {
        return None;
    }
    let g = |i: usize| u64::from_le_bytes(b[i * 8..i * 8 + 8].try_into().unwrap());
    Some((g(0), g(1), g(2)))
}

pub fn make_runner(seed: u64) -> TestRunner {
    let mut bytes = [0u8; 32];
    let mut s = seed;
    for c in bytes.chunks_mut(8) {
        c.copy_from_slice(&crate::oracle::sums::splitmix64(&mut s).to_le_bytes());
    }
    let cfg = Config { failure_persistence: None, cases: 1, ..Config::default() };
    TestRunner::new_with_rng(cfg, TestRng::from_seed(RngAlgorithm::ChaCha, &bytes))
}

fn is_harness_panic(msg: &str) -> bool {
    let loc = msg.rsplit(" @ ").next().unwrap_or("");
    loc.contains("engine/src") || loc.starts_with("src/") && !loc.contains("/repo/")
}

fn run_checked<P: Prop>(case: &P::Case, cx: &mut Ctx) -> Result<Check, String> {
    match guard(|| P::check(case, cx)) {
        Ok(r) => Ok(r),
        Err(pm) => {
            if is_harness_panic(&pm) {
                Err(format!("harness panic: {pm}"))
            } else {
                Ok(Err(Violation::new(panic_sig("uncaught", &pm), format!("panic escaped from the crate: {pm}"))))
            }
        }
    }
}

fn sample_json<T: Serialize>(c: &T) -> serde_json::Value {
    let v = serde_json::to_value(c).unwrap_or(serde_json::Value::Null);
    let s = v.to_string();
    if s.len() > 3000 {
        serde_json::json!({"truncated_case_json_prefix": s.chars().take(1500).collect::<String>(), "json_len": s.len()})
    } else {
        v
    }
}

pub fn run_worker<P: Prop>(a: &WorkerArgs) -> i32 {
    install_quiet_panic_hook();
    let known = load_known(P::ID);
    let mut cx = Ctx::new(a.tier, &a.profile, known);
    let mut rep = WorkerReport::default();
    let journal = Journal::open(&a.journal);
    journal.set(2, 0);
    let write = |rep: &WorkerReport| {
        let tmp = a.out.with_extension("tmp");
        std::fs::write(&tmp, serde_json::to_vec(rep).unwrap()).expect("write report");
        std::fs::rename(&tmp, &a.out).expect("rename report");
    };
    if a.do_selfcheck {
        match guard(|| P::self_check(&mut cx)) {
            Ok(Ok(())) => {}
            Ok(Err(e)) => {
                rep.self_check_error = Some(e);
                write(&rep);
                return 2;
            }
            Err(pm) => {
                rep.self_check_error = Some(format!("panic in self-check: {pm}"));
                write(&rep);
                return 2;
            }
        }
    }
    let mut n_samples_nt = 0;
    let mut stop = false;

    let mut handle = |case: &P::Case, cx: &mut Ctx, rep: &mut WorkerReport, tree: Option<&mut dyn FnMut(&mut Ctx, &str) -> P::Case>| -> Result<bool, String> {
        cx.nontrivial = false;
        cx.sub_fps.clear();
        cx.extra_evals = 0;
        let r = run_checked::<P>(case, cx)?;
        rep.evaluations += 1 + cx.extra_evals;
        rep.cases += 1;
        if cx.nontrivial {
            rep.nontrivial_fps.push(fingerprint(case));
            if n_samples_nt < 3 {
                n_samples_nt += 1;
                rep.samples.push(sample_json(case));
            }
        } else if rep.samples.is_empty() && rep.cases > 3 {
            rep.samples.push(sample_json(case));
        }
        rep.nontrivial_fps.append(&mut cx.sub_fps);
        if let Err(v) = r {
            if cx.is_known(&v.sig) {
                return Ok(false);
            }
            let (best, bv) = match tree {
                Some(shrink) => {
                    let c = shrink(cx, &v.sig);
                    // re-run to get the message of the shrunk case
                    cx.counting = false;
                    let r2 = run_checked::<P>(&c, cx)?;
                    cx.counting = true;
                    match r2 {
                        Err(v2) if v2.sig == v.sig => (c, v2),
                        _ => (case.clone(), v),
                    }
                }
                None => (case.clone(), v),
            };
            rep.violations.push(ReplayFile { property: P::ID.to_string(), profile: cx.profile.clone(), kind: "violation".into(), sig: bv.sig, msg: bv.msg, case: serde_json::to_value(&best).unwrap() });
            return Ok(true);
        }
        Ok(false)
    };

    if a.do_fixed {
        let fixed = P::fixed_cases(a.tier);
        for (i, c) in fixed.iter().enumerate() {
            if i % a.nworkers != a.widx {
                continue;
            }
            journal.set(0, i as u64);
            match handle(c, &mut cx, &mut rep, None) {
                Ok(true) => {
                    stop = true;
                    break;
                }
                Ok(false) => {}
                Err(e) => {
                    rep.self_check_error = Some(e);
                    write(&rep);
                    return 2;
                }
            }
        }
    }
    if !stop && a.cases > 0 {
        let strat = P::strategy(a.tier);
        let mut runner = make_runner(a.seed);
        for i in 0..a.cases {
            let mut tree = match strat.new_tree(&mut runner) {
                Ok(t) => t,
                Err(e) => {
                    rep.self_check_error = Some(format!("generator rejected: {e}"));
                    write(&rep);
                    return 2;
                }
            };
            journal.set(1, i);
            let case = tree.current();
            let mut shrink = |cx: &mut Ctx, sig: &str| -> P::Case {
                cx.counting = false;
                let mut best = tree.current();
                let mut iters = 0;
                if tree.simplify() {
                    loop {
                        iters += 1;
                        if iters > 1500 {
                            break;
                        }
                        let c = tree.current();
                        let failed = matches!(run_checked::<P>(&c, cx), Ok(Err(ref v)) if v.sig == sig);
                        if failed {
                            best = c;
                            if !tree.simplify() {
                                break;
                            }
                        } else if !tree.complicate() {
                            break;
                        }
                    }
                }
                cx.counting = true;
                best
            };
            match handle(&case, &mut cx, &mut rep, Some(&mut shrink)) {
                Ok(true) => break,
                Ok(false) => {}
                Err(e) => {
                    rep.self_check_error = Some(e);
                    write(&rep);
                    return 2;
                }
            }
            if i % 512 == 511 {
                // keep a partial report on disk so a later crash does not lose the counts
                rep.classes = cx.classes.clone();
                rep.known_hits = cx.known_hits.clone();
                write(&rep);
            }
        }
    }
    journal.set(3, 0);
    rep.classes = cx.classes.clone();
    rep.known_hits = cx.known_hits.clone();
    rep.notes = cx.notes.clone();
    rep.finished = true;
    write(&rep);
    0
}

/// Regenerate the `idx`-th case of a worker without running it (used to blame a crash/hang).
pub fn regenerate<P: Prop>(tier: Tier, seed: u64, kind: u64, idx: u64) -> Option<P::Case> {
    if kind == 0 {
        return P::fixed_cases(tier).into_iter().nth(idx as usize);
    }
    let strat = P::strategy(tier);
    let mut runner = make_runner(seed);
    let mut last = None;
    for _ in 0..=idx {
        last = Some(strat.new_tree(&mut runner).ok()?.current());
    }
    last
}

pub fn replay<P: Prop>(file: &std::path::Path, profile: &str, tier: Tier) -> i32 {
    install_quiet_panic_hook();
    let s = std::fs::read_to_string(file).unwrap_or_else(|e| {
        eprintln!("cannot read {}: {e}", file.display());
        std::process::exit(2)
    });
    let rf: ReplayFile = serde_json::from_str(&s).unwrap_or_else(|e| {
        eprintln!("bad replay file: {e}");
        std::process::exit(2)
    });
    let case: P::Case = serde_json::from_value(rf.case.clone()).unwrap_or_else(|e| {
        eprintln!("replay case does not match the property's case type: {e}");
        std::process::exit(2)
    });
    let mut cx = Ctx::new(tier, profile, load_known(P::ID));
    match run_checked::<P>(&case, &mut cx) {
        Ok(Ok(())) => {
            println!("replay {}: property held", file.display());
            0
        }
        Ok(Err(v)) => {
            if cx.is_known(&v.sig) {
                println!("KNOWN-FINDING: property={} {}", P::ID, v.sig);
                return 0;
            }
            println!("replay failed: sig={} msg={}", v.sig, v.msg);
            println!("VIOLATION property={} replay={}", P::ID, file.display());
            1
        }
        Err(e) => {
            eprintln!("machinery error: {e}");
            2
        }
    }
}
