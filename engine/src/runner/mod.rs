//! Orchestrator / worker / replay / evidence machinery shared by all property checks.

pub mod orchestrator;
pub mod worker;

use serde::{de::DeserializeOwned, Deserialize, Serialize};
use std::collections::BTreeMap;
use std::fmt::Debug;

#[derive(Clone, Copy, Debug, PartialEq, Eq, Serialize, Deserialize)]
pub enum Tier {
    Quick,
    Thorough,
}

impl Tier {
    pub fn parse(s: &str) -> Option<Tier> {
        match s {
            "quick" => Some(Tier::Quick),
            "thorough" => Some(Tier::Thorough),
            _ => None,
        }
    }
    pub fn name(self) -> &'static str {
        match self {
            Tier::Quick => "quick",
            Tier::Thorough => "thorough",
        }
    }
    pub fn pick<T>(self, q: T, t: T) -> T {
        match self {
            Tier::Quick => q,
            Tier::Thorough => t,
        }
    }
}

#[derive(Clone, Debug, Serialize, Deserialize)]
pub struct Violation {
    /// signature: identifies the *kind* of failure (matched against known_findings.json)
    pub sig: String,
    pub msg: String,
}

impl Violation {
    pub fn new(sig: impl Into<String>, msg: impl Into<String>) -> Violation {
        Violation { sig: sig.into(), msg: msg.into() }
    }
}

pub type Check = Result<(), Violation>;

#[macro_export]
macro_rules! vfail {
    ($sig:expr, $($arg:tt)*) => {
        return Err($crate::runner::Violation::new($sig, format!($($arg)*)))
    };
}

#[macro_export]
macro_rules! vensure {
    ($cond:expr, $sig:expr, $($arg:tt)*) => {
        if !($cond) {
            return Err($crate::runner::Violation::new($sig, format!($($arg)*)));
        }
    };
}

/// Per-case context: classification counters and the non-triviality flag.
pub struct Ctx {
    pub tier: Tier,
    pub profile: String,
    pub classes: BTreeMap<String, u64>,
    pub nontrivial: bool,
    /// extra evaluations performed inside this case (a case may stand for a whole sub-space)
    pub extra_evals: u64,
    /// extra distinct non-trivial sub-cases inside this case, as fingerprints
    pub sub_fps: Vec<u64>,
    /// when false, classification is suppressed (used while shrinking)
    pub counting: bool,
    pub known_hits: BTreeMap<String, u64>,
    pub known: Vec<KnownFinding>,
    pub notes: BTreeMap<String, serde_json::Value>,
}

impl Ctx {
    pub fn new(tier: Tier, profile: &str, known: Vec<KnownFinding>) -> Ctx {
        Ctx { tier, profile: profile.to_string(), classes: BTreeMap::new(), nontrivial: false, extra_evals: 0, sub_fps: Vec::new(), counting: true, known_hits: BTreeMap::new(), known, notes: BTreeMap::new() }
    }
    pub fn class(&mut self, name: &str) {
        if self.counting {
            *self.classes.entry(name.to_string()).or_insert(0) += 1;
        }
    }
    pub fn class_n(&mut self, name: &str, n: u64) {
        if self.counting {
            *self.classes.entry(name.to_string()).or_insert(0) += n;
        }
    }
    pub fn nontrivial(&mut self) {
        self.nontrivial = true;
    }
    pub fn evals(&mut self, n: u64) {
        if self.counting {
            self.extra_evals += n;
        }
    }
    pub fn sub_nontrivial(&mut self, fp: u64) {
        if self.counting {
            self.sub_fps.push(fp);
        }
    }
    /// Is this signature a recorded known finding (status "known")? Counts the hit.
    pub fn is_known(&mut self, sig: &str) -> bool {
        if self.known.iter().any(|k| k.status == "known" && k.key == sig) {
            if self.counting {
                *self.known_hits.entry(sig.to_string()).or_insert(0) += 1;
            }
            true
        } else {
            false
        }
    }
}

#[derive(Clone, Debug, Serialize, Deserialize)]
pub struct KnownFinding {
    pub property: String,
    pub key: String,
    pub status: String,
    #[serde(default)]
    pub commit: Option<String>,
    pub what: String,
}

pub fn load_known(property: &str) -> Vec<KnownFinding> {
    let p = verif_dir().join("known_findings.json");
    match std::fs::read_to_string(&p) {
        Ok(s) => {
            let all: Vec<KnownFinding> = serde_json::from_str(&s).unwrap_or_else(|e| {
                eprintln!("known_findings.json unreadable: {e}");
                std::process::exit(2)
            });
            all.into_iter().filter(|k| k.property == property).collect()
        }
        Err(_) => Vec::new(),
    }
}

pub fn verif_dir() -> std::path::PathBuf {
    std::env::var("MZV_VERIF_DIR").map(Into::into).unwrap_or_else(|_| "/verif".into())
}

pub struct Meta {
    pub level: &'static str,
    pub rule: &'static str,
    pub assumptions: &'static [&'static str],
    /// profiles to run: "rel" always; add "dbg" for panic/overflow-sensitive properties
    pub dbg: bool,
    /// also run in a build of the crate with the `simd` feature (separate target dir)
    pub simd: bool,
    pub exhaustive: Option<&'static str>,
}

pub trait Prop {
    const ID: &'static str;
    type Case: Clone + Debug + Serialize + DeserializeOwned;
    fn meta() -> Meta;
    /// number of random cases in total (all workers together)
    fn cases(tier: Tier) -> u64;
    fn strategy(tier: Tier) -> proptest::strategy::BoxedStrategy<Self::Case>;
    /// enumerated sub-spaces, distributed round-robin over the workers
    fn fixed_cases(_tier: Tier) -> Vec<Self::Case> {
        Vec::new()
    }
    fn check(case: &Self::Case, cx: &mut Ctx) -> Check;
    /// called once per worker before cases (oracle self-check etc.); Err = machinery trouble (exit 2)
    fn self_check(_cx: &mut Ctx) -> Result<(), String> {
        Ok(())
    }
    /// run the fixed cases in every build profile (default: release only)
    fn fixed_on_all_profiles() -> bool {
        false
    }
    /// signature for a case whose execution killed the worker process (SIGSEGV at a guard page, abort)
    fn crash_sig(_case: &Self::Case) -> Option<String> {
        None
    }
}

#[derive(Clone, Debug, Serialize, Deserialize, Default)]
pub struct WorkerReport {
    pub evaluations: u64,
    pub cases: u64,
    pub nontrivial_fps: Vec<u64>,
    pub classes: BTreeMap<String, u64>,
    pub samples: Vec<serde_json::Value>,
    pub violations: Vec<ReplayFile>,
    pub known_hits: BTreeMap<String, u64>,
    pub self_check_error: Option<String>,
    pub notes: BTreeMap<String, serde_json::Value>,
    pub finished: bool,
}

#[derive(Clone, Debug, Serialize, Deserialize)]
pub struct ReplayFile {
    pub property: String,
    pub profile: String,
    pub kind: String,
    pub sig: String,
    pub msg: String,
    pub case: serde_json::Value,
}

pub fn fingerprint<T: Serialize>(c: &T) -> u64 {
    let s = serde_json::to_vec(c).unwrap_or_default();
    crate::oracle::sums::fnv64(&s)
}

thread_local! {
    pub static LAST_PANIC: std::cell::RefCell<String> = const { std::cell::RefCell::new(String::new()) };
}

pub fn install_quiet_panic_hook() {
    std::panic::set_hook(Box::new(|info| {
        let loc = info.location().map(|l| format!("{}:{}", l.file(), l.line())).unwrap_or_default();
        let msg = if let Some(s) = info.payload().downcast_ref::<&str>() {
            s.to_string()
        } else if let Some(s) = info.payload().downcast_ref::<String>() {
            s.clone()
        } else {
            "<non-string panic>".to_string()
        };
        LAST_PANIC.with(|p| *p.borrow_mut() = format!("{msg} @ {loc}"));
    }));
}

/// Run `f`, turning a panic into Err(message @ location)
pub fn guard<T>(f: impl FnOnce() -> T) -> Result<T, String> {
    match std::panic::catch_unwind(std::panic::AssertUnwindSafe(f)) {
        Ok(v) => Ok(v),
        Err(_) => Err(LAST_PANIC.with(|p| p.borrow().clone())),
    }
}

/// Signature of a panic: the source location without line numbers drifting too much is hard;
/// use file:line plus first words of the message.
pub fn panic_sig(prefix: &str, m: &str) -> String {
    let loc = m.rsplit(" @ ").next().unwrap_or("");
    // strip absolute prefix
    let loc = loc.rsplit("/repo/").next().unwrap_or(loc);
    format!("{prefix}:panic:{loc}")
}
