use super::worker::read_journal;
use super::*;
use std::collections::{BTreeMap, BTreeSet};
use std::path::{Path, PathBuf};
use std::process::{Child, Command, Stdio};
use std::time::{Duration, Instant};

pub fn seed_from_env() -> u64 {
    std::env::var("VERIF_SEED").ok().and_then(|s| s.trim().parse::<i64>().ok()).map(|v| v as u64).unwrap_or(20260923)
}

fn bin_for(profile: &str) -> PathBuf {
    let me = std::env::current_exe().expect("current_exe");
    if profile == "rel" {
        return me;
    }
    if let Ok(p) = std::env::var(format!("MZV_BIN_{}", profile.to_uppercase())) {
        return p.into();
    }
    // target/release/mzv -> target/<profile>/mzv ; simd: target-simd/release/mzv
    let target = me.parent().unwrap().parent().unwrap();
    if profile == "simd" {
        return target.parent().unwrap().join("target-simd").join("release").join("mzv");
    }
    target.join(profile).join("mzv")
}

struct Slot {
    child: Child,
    widx: usize,
    profile: String,
    seed: u64,
    out: PathBuf,
    journal: PathBuf,
    last_seq: u64,
    last_change: Instant,
}

fn sig_hash(s: &str) -> String {
    format!("{:016x}", crate::oracle::sums::fnv64(s.as_bytes()))
}

pub fn orchestrate<P: Prop>(tier: Tier) -> i32 {
    let t0 = Instant::now();
    let id = P::ID;
    let meta = P::meta();
    let seed = seed_from_env();
    let vdir = verif_dir();
    let run_dir = vdir.join("engine").join("run").join(format!("{}-{}-{}", id, tier.name(), std::process::id()));
    let _ = std::fs::remove_dir_all(&run_dir);
    std::fs::create_dir_all(&run_dir).expect("run dir");
    let found_dir = vdir.join("replays").join(id).join("found");
    let mut violations: Vec<(String, PathBuf, String)> = Vec::new(); // (sig, replay path, msg)
    let mut machinery: Vec<String> = Vec::new();
    let known_all = load_known(id);

    let mut profiles: Vec<&str> = vec!["rel"];
    if meta.dbg {
        profiles.push("dbg");
    }
    if meta.simd {
        profiles.push("simd");
    }
    for p in &profiles {
        if !bin_for(p).exists() {
            eprintln!("missing binary for profile {p}: {}", bin_for(p).display());
            return 2;
        }
    }

    // ---- regression tier: committed replay files must all pass
    let mut regress = 0u64;
    let reg_dir = vdir.join("replays").join(id);
    if let Ok(rd) = std::fs::read_dir(&reg_dir) {
        let mut files: Vec<PathBuf> = rd.filter_map(|e| e.ok()).map(|e| e.path()).filter(|p| p.extension().map(|e| e == "json").unwrap_or(false)).collect();
        files.sort();
        for f in files {
            for p in &profiles {
                regress += 1;
                let st = Command::new(bin_for(p)).args(["replay", id, f.to_str().unwrap(), "--profile", p]).stdout(Stdio::null()).stderr(Stdio::null()).status();
                match st {
                    Ok(s) if s.success() => {}
                    Ok(s) if s.code() == Some(2) => machinery.push(format!("replay of {} ended with exit 2", f.display())),
                    Ok(_) | Err(_) => {
                        violations.push((format!("regression:{}", f.file_name().unwrap().to_string_lossy()), f.clone(), format!("committed replay fails again under profile {p}")));
                    }
                }
            }
        }
    }

    // ---- workers
    let ncpu = std::thread::available_parallelism().map(|n| n.get()).unwrap_or(4).min(16).max(2);
    let total = P::cases(tier);
    let n_dbg = if meta.dbg { (ncpu / 4).max(1) } else { 0 };
    let n_simd = if meta.simd { (ncpu / 4).max(1) } else { 0 };
    let n_rel = ncpu - n_dbg - n_simd;
    let mut slots: Vec<Slot> = Vec::new();
    let mut plan: Vec<(String, usize, usize, u64)> = Vec::new(); // profile, widx, nworkers(for that profile), cases
    // random cases are split in proportion to the number of workers of each profile
    let mut rest = total;
    for (profile, nw) in [("dbg", n_dbg), ("simd", n_simd), ("rel", n_rel)] {
        if nw == 0 {
            continue;
        }
        let share = if profile == "rel" { rest } else { total * nw as u64 / ncpu as u64 };
        rest -= share.min(rest);
        for w in 0..nw {
            let n = share / nw as u64 + if (w as u64) < share % nw as u64 { 1 } else { 0 };
            plan.push((profile.to_string(), w, nw, n));
        }
    }
    for (gi, (profile, widx, nw, n)) in plan.iter().enumerate() {
        let mut s = seed ^ crate::oracle::sums::fnv64(id.as_bytes()) ^ ((gi as u64 + 1) << 48);
        let wseed = crate::oracle::sums::splitmix64(&mut s);
        let out = run_dir.join(format!("w{gi}.json"));
        let journal = run_dir.join(format!("w{gi}.journal"));
        let child = Command::new(bin_for(profile))
            .args(["worker", id, tier.name(), "--seed", &wseed.to_string(), "--widx", &widx.to_string(), "--nw", &nw.to_string(), "--cases", &n.to_string(), "--profile", profile, "--out", out.to_str().unwrap(), "--journal", journal.to_str().unwrap()])
            .args(if *widx == 0 { vec!["--selfcheck"] } else { vec![] })
            .args(if profile != "rel" && !P::fixed_on_all_profiles() { vec!["--no-fixed"] } else { vec![] })
            .stdout(Stdio::null())
            .stderr(Stdio::inherit())
            .spawn();
        match child {
            Ok(child) => slots.push(Slot { child, widx: *widx, profile: profile.clone(), seed: wseed, out, journal, last_seq: 0, last_change: Instant::now() }),
            Err(e) => {
                eprintln!("cannot spawn worker: {e}");
                return 2;
            }
        }
    }

    let stall_limit = Duration::from_secs(std::env::var("MZV_STALL_S").ok().and_then(|s| s.parse().ok()).unwrap_or(300));
    let mut reports: Vec<WorkerReport> = Vec::new();
    let mut crashed: Vec<(String, u64, u64, u64, String)> = Vec::new(); // profile, seed, kind, idx, how
    let mut live: Vec<Slot> = slots;
    while !live.is_empty() {
        let mut still = Vec::new();
        for mut s in live {
            match s.child.try_wait() {
                Ok(Some(st)) => {
                    let rep: Option<WorkerReport> = std::fs::read(&s.out).ok().and_then(|b| serde_json::from_slice(&b).ok());
                    let clean = st.code() == Some(0) && rep.as_ref().map(|r| r.finished).unwrap_or(false);
                    if clean {
                        reports.push(rep.unwrap());
                    } else if st.code() == Some(2) {
                        let e = rep.as_ref().and_then(|r| r.self_check_error.clone()).unwrap_or_else(|| "worker exit 2".into());
                        machinery.push(format!("worker {}[{}]: {}", s.profile, s.widx, e));
                        if let Some(r) = rep {
                            reports.push(r);
                        }
                    } else {
                        // abnormal death: blame the journalled case
                        let how = format!("{st}");
                        if let Some((kind, idx, _)) = read_journal(&s.journal) {
                            crashed.push((s.profile.clone(), s.seed, kind, idx, how));
                        } else {
                            machinery.push(format!("worker died ({how}) without journal"));
                        }
                        if let Some(r) = rep {
                            reports.push(r);
                        }
                    }
                }
                Ok(None) => {
                    if let Some((_, _, seq)) = read_journal(&s.journal) {
                        if seq != s.last_seq {
                            s.last_seq = seq;
                            s.last_change = Instant::now();
                        }
                    }
                    if s.last_change.elapsed() > stall_limit {
                        let _ = s.child.kill();
                        let _ = s.child.wait();
                        if let Some((kind, idx, _)) = read_journal(&s.journal) {
                            crashed.push((s.profile.clone(), s.seed, kind, idx, "stalled".into()));
                        }
                        let rep: Option<WorkerReport> = std::fs::read(&s.out).ok().and_then(|b| serde_json::from_slice(&b).ok());
                        if let Some(r) = rep {
                            reports.push(r);
                        }
                    } else {
                        still.push(s);
                    }
                }
                Err(e) => machinery.push(format!("wait: {e}")),
            }
        }
        live = still;
        if !live.is_empty() {
            std::thread::sleep(Duration::from_millis(50));
        }
    }

    // ---- confirm crashes / hangs in isolation
    let mut known_crashes: BTreeMap<String, u64> = BTreeMap::new();
    for (profile, wseed, kind, idx, how) in crashed {
        if kind >= 2 {
            machinery.push(format!("worker ({profile}) died ({how}) outside a case (phase {kind})"));
            continue;
        }
        let case = match super::worker::regenerate::<P>(tier, wseed, kind, idx) {
            Some(c) => c,
            None => {
                machinery.push("could not regenerate crashing case".into());
                continue;
            }
        };
        let sig = match (how == "stalled", P::crash_sig(&case)) {
            (false, Some(s)) => s,
            _ => format!("{}:{}", if how == "stalled" { "hang" } else { "crash" }, how.replace(' ', "_")),
        };
        let rf = ReplayFile { property: id.into(), profile: profile.clone(), kind: if how == "stalled" { "hang".into() } else { "crash".into() }, sig: sig.clone(), msg: format!("worker process ended abnormally ({how}) while running this case"), case: serde_json::to_value(&case).unwrap() };
        std::fs::create_dir_all(&found_dir).ok();
        let path = found_dir.join(format!("{}.json", sig_hash(&format!("{sig}{}", fingerprint(&case)))));
        std::fs::write(&path, serde_json::to_vec_pretty(&rf).unwrap()).ok();
        if known_all.iter().any(|k| k.status == "known" && k.key == sig) {
            *known_crashes.entry(sig.clone()).or_insert(0) += 1;
            continue;
        }
        // isolated confirmation
        let limit = Duration::from_secs(600);
        let mut ch = match Command::new(bin_for(&profile)).args(["replay", id, path.to_str().unwrap(), "--profile", &profile]).stdout(Stdio::null()).stderr(Stdio::null()).spawn() {
            Ok(c) => c,
            Err(e) => {
                machinery.push(format!("spawn replay: {e}"));
                continue;
            }
        };
        let t = Instant::now();
        let outcome = loop {
            match ch.try_wait() {
                Ok(Some(st)) => break Some(st),
                Ok(None) => {
                    if t.elapsed() > limit {
                        let _ = ch.kill();
                        let _ = ch.wait();
                        break None;
                    }
                    std::thread::sleep(Duration::from_millis(50));
                }
                Err(_) => break None,
            }
        };
        match outcome {
            None => violations.push((sig, path, "call did not return within 600 s in isolation (confirmed hang)".into())),
            Some(st) if st.code() == Some(0) => machinery.push(format!("case blamed for '{how}' passes in isolation: inconclusive ({})", path.display())),
            Some(st) if st.code() == Some(2) => machinery.push(format!("isolated replay hit machinery trouble ({})", path.display())),
            Some(st) if format!("{st}").contains("signal: 9") => machinery.push(format!("isolated replay was killed by SIGKILL (most likely out of memory): inconclusive ({})", path.display())),
            Some(st) => violations.push((sig, path, format!("confirmed in isolation: {st}"))),
        }
    }

    // ---- merge
    let mut evaluations = regress;
    let mut fps: BTreeSet<u64> = BTreeSet::new();
    let mut classes: BTreeMap<String, u64> = BTreeMap::new();
    let mut known_hits: BTreeMap<String, u64> = known_crashes.clone();
    let mut samples: Vec<serde_json::Value> = Vec::new();
    let mut notes: BTreeMap<String, serde_json::Value> = BTreeMap::new();
    let mut cases = 0;
    for r in &reports {
        evaluations += r.evaluations;
        cases += r.cases;
        fps.extend(r.nontrivial_fps.iter().copied());
        for (k, v) in &r.classes {
            *classes.entry(k.clone()).or_insert(0) += v;
        }
        for (k, v) in &r.known_hits {
            *known_hits.entry(k.clone()).or_insert(0) += v;
        }
        for (k, v) in &r.notes {
            notes.entry(k.clone()).or_insert_with(|| v.clone());
        }
        for s in &r.samples {
            if samples.len() < 5 {
                samples.push(s.clone());
            }
        }
        for v in &r.violations {
            std::fs::create_dir_all(&found_dir).ok();
            let path = found_dir.join(format!("{}.json", sig_hash(&format!("{}{}", v.sig, v.case))));
            std::fs::write(&path, serde_json::to_vec_pretty(v).unwrap()).ok();
            violations.push((v.sig.clone(), path, v.msg.clone()));
        }
    }
    // one VIOLATION line per signature
    let mut seen = BTreeSet::new();
    violations.retain(|(sig, _, _)| seen.insert(sig.clone()));

    let wall = t0.elapsed().as_secs_f64();
    let mut coverage = serde_json::json!({
        "evaluations": evaluations,
        "distinct_nontrivial": fps.len(),
        "rule": meta.rule,
        "samples": samples,
        "cases": cases,
        "classes": classes,
        "profiles": profiles,
        "workers": plan.len(),
        "regression_replays": regress,
        "known_findings_hit": known_hits,
        "fixed_findings_on_file": known_all.iter().filter(|k| k.status == "fixed").map(|k| k.key.clone()).collect::<Vec<_>>(),
        "notes": notes,
        "machinery_messages": machinery,
    });
    if let Some(space) = meta.exhaustive {
        coverage["exhaustive"] = serde_json::json!(true);
        coverage["exhaustive_subspace"] = serde_json::json!(space);
    }
    let evidence = serde_json::json!({
        "property_id": id,
        "tier": tier.name(),
        "seed": seed as i64,
        "level": meta.level,
        "coverage": coverage,
        "assumptions": meta.assumptions,
        "wall_s": wall,
        "violations": violations.len(),
    });
    let ev_dir = vdir.join("evidence");
    std::fs::create_dir_all(&ev_dir).ok();
    std::fs::write(ev_dir.join(format!("{id}.json")), serde_json::to_vec_pretty(&evidence).unwrap()).expect("write evidence");
    let _ = std::fs::remove_dir_all(&run_dir);

    println!("{id} {}: {} evaluations in {} cases, {} distinct non-trivial, {:.1}s, profiles {:?}", tier.name(), evaluations, cases, fps.len(), wall, profiles);
    for (sig, n) in &known_hits {
        let what = known_all.iter().find(|k| &k.key == sig).map(|k| k.what.clone()).unwrap_or_default();
        println!("KNOWN-FINDING: property={id} {sig} ({n} cases) {what}");
    }
    for m in &machinery {
        eprintln!("MACHINERY: {m}");
    }
    if !violations.is_empty() {
        for (sig, path, msg) in &violations {
            println!("violation sig={sig}: {msg}");
            println!("VIOLATION property={id} replay={}", path.display());
        }
        return 1;
    }
    if !machinery.is_empty() {
        return 2;
    }
    0
}

pub fn ensure_dir(p: &Path) {
    let _ = std::fs::create_dir_all(p);
}
