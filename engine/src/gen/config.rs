//! Compressor configurations and call schedules.

use miniz_oxide::deflate::core::{create_comp_flags_from_zip_params, CompressionStrategy, CompressorOxide, TDEFLFlush};
use miniz_oxide::deflate::CompressionLevel;
use miniz_oxide::DataFormat;
use proptest::prelude::*;
use serde::{Deserialize, Serialize};

#[derive(Clone, Copy, Debug, Serialize, Deserialize, PartialEq, Eq)]
pub enum Ctor {
    /// CompressorOxide::new(create_comp_flags_from_zip_params(level, ±15, strategy))
    Flags,
    /// CompressorOxide::with_format_and_level
    FormatLevel,
    /// CompressorOxide::with_params(format, level, strategy, window_bits)
    Params,
    /// CompressorOxide::default()
    Default,
    /// CompressorOxide::new(word) with a hand-composed miniz flag word: the word the zip-parameter
    /// helper gives for (level, strategy, format), with TDEFL_COMPUTE_ADLER32 set or cleared and
    /// TDEFL_NONDETERMINISTIC_PARSING_FLAG possibly added (both documented as not changing the
    /// stream), selected by the low bits of `hand`
    Hand,
}

#[derive(Clone, Copy, Debug, Serialize, Deserialize, PartialEq, Eq)]
pub struct Config {
    pub ctor: Ctor,
    pub level: i32,
    pub strategy: i32,
    pub zlib: bool,
    pub wbits: u8,
    /// selector bits for Ctor::Hand
    #[serde(default)]
    pub hand: u8,
}

pub fn strategy_of(i: i32) -> CompressionStrategy {
    match i {
        1 => CompressionStrategy::Filtered,
        2 => CompressionStrategy::HuffmanOnly,
        3 => CompressionStrategy::RLE,
        4 => CompressionStrategy::Fixed,
        _ => CompressionStrategy::Default,
    }
}

const LEVELS: [CompressionLevel; 6] = [CompressionLevel::NoCompression, CompressionLevel::BestSpeed, CompressionLevel::BestCompression, CompressionLevel::UberCompression, CompressionLevel::DefaultLevel, CompressionLevel::DefaultCompression];

impl Config {
    pub fn make(&self) -> CompressorOxide {
        let fmt = if self.zlib { DataFormat::Zlib } else { DataFormat::Raw };
        match self.ctor {
            Ctor::Flags => CompressorOxide::new(create_comp_flags_from_zip_params(self.level, if self.zlib { 15 } else { -15 }, self.strategy)),
            Ctor::FormatLevel => CompressorOxide::with_format_and_level(fmt, LEVELS[self.level.rem_euclid(6) as usize]),
            Ctor::Params => CompressorOxide::with_params(fmt, self.level.clamp(0, 255) as u8, strategy_of(self.strategy), self.wbits),
            Ctor::Default => CompressorOxide::default(),
            Ctor::Hand => {
                let mut f = create_comp_flags_from_zip_params(self.level, if self.zlib { 15 } else { -15 }, self.strategy);
                if self.hand & 1 == 1 {
                    f |= 0x2000;
                } else {
                    f &= !0x2000;
                }
                if self.hand & 2 == 2 {
                    f |= 0x8000;
                }
                CompressorOxide::new(f)
            }
        }
    }
    /// the same constructor asked for the raw format, then switched to zlib with
    /// set_format_and_level before any data (the documented use of that setter)
    pub fn make_born_raw_then_zlib(&self) -> CompressorOxide {
        let mut raw = *self;
        raw.zlib = false;
        // the setter refuses (silently) when the new level needs a larger window than the one the
        // compressor was created with; keep that out of this variant
        raw.wbits = 15;
        let mut c = if raw.ctor == Ctor::Default { CompressorOxide::new(create_comp_flags_from_zip_params(self.level, -15, self.strategy)) } else { raw.make() };
        c.set_format_and_level(DataFormat::Zlib, self.level.clamp(0, 10) as u8);
        c
    }
    pub fn is_zlib(&self) -> bool {
        match self.ctor {
            Ctor::Default => true,
            _ => self.zlib,
        }
    }
    /// the (level, strategy) the configuration asks for, as the documentation defines it,
    /// before any window-bits remapping
    pub fn requested(&self) -> (i32, i32) {
        match self.ctor {
            Ctor::Flags | Ctor::Hand => (if self.level < 0 { 6 } else { self.level.min(10) }, if (0..=4).contains(&self.strategy) { self.strategy } else { 0 }),
            Ctor::FormatLevel => {
                let l = LEVELS[self.level.rem_euclid(6) as usize] as i32;
                (if l < 0 { 6 } else { l }, 0)
            }
            Ctor::Params => (self.level.clamp(0, 10), if (0..=4).contains(&self.strategy) { self.strategy } else { 0 }),
            Ctor::Default => (4, 0),
        }
    }
}

pub fn config() -> BoxedStrategy<Config> {
    let ctor = prop_oneof![4 => Just(Ctor::Flags), 1 => Just(Ctor::FormatLevel), 3 => Just(Ctor::Params), 1 => Just(Ctor::Default), 1 => Just(Ctor::Hand)];
    let level = prop_oneof![6 => 0i32..=10, 1 => -1i32..=12];
    let strategy = prop_oneof![4 => Just(0i32), 4 => 1i32..=4, 1 => -1i32..=5];
    let wbits = prop_oneof![3 => Just(15u8), 3 => 8u8..=15, 1 => 0u8..=16];
    (ctor, level, strategy, any::<bool>(), wbits, 0u8..=3).prop_map(|(ctor, level, strategy, zlib, wbits, hand)| Config { ctor, level, strategy, zlib, wbits, hand }).boxed()
}

/// Only window_bits = 15 (for checks where window honesty is someone else's business)
pub fn config_w15() -> BoxedStrategy<Config> {
    config().prop_map(|mut c| {
        c.wbits = 15;
        c
    }).boxed()
}

#[derive(Clone, Copy, Debug, Serialize, Deserialize, PartialEq, Eq)]
pub struct Step {
    /// input bytes offered in this call (clamped to what is left)
    pub in_take: u32,
    pub out_size: u32,
    /// TDEFLFlush value 0..=7
    pub flush: u8,
}

pub fn tdefl_flush(v: u8) -> TDEFLFlush {
    match v {
        1 => TDEFLFlush::Partial,
        2 => TDEFLFlush::Sync,
        3 => TDEFLFlush::Full,
        4 => TDEFLFlush::Finish,
        5 => TDEFLFlush::PartialOpt,
        6 => TDEFLFlush::SyncOpt,
        7 => TDEFLFlush::NoSync,
        _ => TDEFLFlush::None,
    }
}

pub fn in_take() -> BoxedStrategy<u32> {
    prop_oneof![
        2 => Just(u32::MAX),
        2 => 0u32..=3,
        2 => 1u32..=64,
        1 => Just(258u32),
        1 => Just(4096u32),
        1 => Just(65536u32),
        1 => 32_760u32..=32_776,
        2 => 1u32..=100_000,
    ]
    .boxed()
}

pub fn out_size() -> BoxedStrategy<u32> {
    prop_oneof![
        3 => 1u32..=7,
        2 => 1u32..=64,
        2 => 1u32..=5000,
        1 => proptest::sample::select(vec![85194u32, 85195, 85196, 85197, 85198]),
        // between "a few KiB" and the direct-write threshold: the block is assembled in the
        // compressor's own buffer and handed over in pieces of this size
        1 => prop_oneof![1 => Just(32_768u32), 1 => 32_769u32..=34_000, 2 => 5_000u32..=90_000],
        2 => Just(1u32 << 20),
    ]
    .boxed()
}

pub fn step(flush_weight: u32) -> BoxedStrategy<Step> {
    let fl = prop_oneof![
        12 => Just(0u8),
        flush_weight => proptest::sample::select(vec![1u8, 2, 3, 5, 6, 7]),
    ];
    (in_take(), out_size(), fl).prop_map(|(in_take, out_size, flush)| Step { in_take, out_size, flush }).boxed()
}

#[derive(Clone, Debug, Serialize, Deserialize, PartialEq, Eq)]
pub struct Schedule {
    pub steps: Vec<Step>,
    /// output buffer sizes used round-robin during the finishing phase
    pub finish_out: Vec<u32>,
}

pub fn schedule(max_steps: usize) -> BoxedStrategy<Schedule> {
    let plain = (proptest::collection::vec(step(3), 0..=max_steps), proptest::collection::vec(out_size(), 1..=3)).prop_map(|(steps, finish_out)| Schedule { steps, finish_out });
    // schedules whose call boundaries fall at (or a few bytes around) the compressor's internal
    // thresholds: the 4 KiB fast-path look-ahead, the 32 KiB dictionary ring, 64 KiB, the 258-byte
    // look-ahead of the normal path
    let target = (prop_oneof![
        3 => (1u32..=4, Just(32_768u32)).prop_map(|(k, m)| k * m),
        2 => (1u32..=20, Just(4_096u32)).prop_map(|(k, m)| k * m),
        1 => Just(65_536u32),
        1 => Just(31_744u32),
        1 => (1u32..=300, Just(258u32)).prop_map(|(k, m)| k * m),
        2 => 1u32..=200,
    ], -8i32..=8).prop_map(|(t, d)| (t as i64 + d as i64).max(0) as u32);
    let fl = prop_oneof![6 => Just(0u8), 3 => Just(2u8), 1 => Just(3u8), 1 => Just(1u8), 1 => Just(7u8)];
    let out = prop_oneof![3 => Just(1u32 << 20), 1 => out_size()];
    let aligned = (proptest::collection::vec((target, out, fl), 1..=max_steps.max(1)), proptest::collection::vec(out_size(), 1..=3)).prop_map(|(mut t, finish_out)| {
        t.sort_by_key(|x| x.0);
        let mut pos = 0u32;
        let mut steps = Vec::new();
        for (target, out_size, flush) in t {
            let take = target.saturating_sub(pos);
            pos = pos.max(target);
            steps.push(Step { in_take: take, out_size, flush });
        }
        Schedule { steps, finish_out }
    });
    prop_oneof![5 => plain, 2 => aligned].boxed()
}
