//! Plaintext recipes: a case stores a list of segments, not bytes (compact JSON, segment-wise shrinking).

use crate::oracle::sums::splitmix64;
use proptest::prelude::*;
use serde::{Deserialize, Serialize};

#[derive(Clone, Debug, Serialize, Deserialize, PartialEq, Eq)]
pub enum Seg {
    Random { n: u32, seed: u64 },
    Run { byte: u8, n: u32 },
    /// n bytes drawn from an alphabet of k symbols
    Alphabet { k: u8, n: u32, seed: u64 },
    /// bytes 144..=255 (the 9-bit literals of the fixed code)
    High { n: u32, seed: u64 },
    /// repeat `len` bytes of what precedes at distance `dist` (clamped to what exists)
    CopyBack { dist: u32, len: u32 },
    /// pseudo-text from a small dictionary
    Text { n: u32, seed: u64 },
    /// random bytes with a 3..=5-byte repeat planted every `gap` bytes (sparse short matches)
    Sparse { n: u32, gap: u16, rep: u8, seed: u64 },
    Raw(Vec<u8>),
    /// symbols with Fibonacci-like (geometric, ratio ~1.618) frequencies: forces Huffman codes up to the
    /// 15-bit limit in the compressor (length-limiting code) 
    Skewed { n: u32, syms: u8, seed: u64 },
    /// `records` records of one varying byte + a 300-byte tail that repeats the previous record's tail,
    /// arranged so that a lazy parser sees a short match at the varying byte and a >= 128 byte match one
    /// position later (literal + long match in ONE parser step); after `prefix` unique literal bytes.
    /// Fills the 64 KiB LZ code buffer with maximal-size steps (boundary sweep over `prefix`).
    LazyEdge { records: u32, prefix: u16, seed: u64 },
}

#[derive(Clone, Debug, Serialize, Deserialize, PartialEq, Eq)]
pub struct Recipe {
    pub segs: Vec<Seg>,
    pub twice: bool,
}

const WORDS: [&str; 32] = [
    "the ", "of ", "and ", "stream ", "deflate ", "block ", "0123456789", "window ", "match ", "length ", "distance ", "huffman ", "code ", "zlib ", "header ", "adler ", "\n", ", ", "compress ", "inflate ", "buffer ",
    "output ", "input ", "state ", "literal ", "symbol ", "table ", "flush ", "sync ", "finish ", "AAAA", "abcabcabc",
];

impl Seg {
    pub fn append(&self, out: &mut Vec<u8>) {
        match self {
            Seg::Random { n, seed } => {
                let mut s = *seed;
                let mut left = *n as usize;
                while left > 0 {
                    let v = splitmix64(&mut s).to_le_bytes();
                    let k = left.min(8);
                    out.extend_from_slice(&v[..k]);
                    left -= k;
                }
            }
            Seg::Run { byte, n } => out.resize(out.len() + *n as usize, *byte),
            Seg::Alphabet { k, n, seed } => {
                let mut s = *seed;
                let k = (*k).max(1) as u64;
                let base = (splitmix64(&mut s) & 0xff) as u8;
                for _ in 0..*n {
                    out.push(base.wrapping_add((((splitmix64(&mut s) >> 20) % k) as u8).wrapping_mul(37)));
                }
            }
            Seg::High { n, seed } => {
                let mut s = *seed;
                for _ in 0..*n {
                    out.push(144 + ((splitmix64(&mut s) >> 24) % 112) as u8);
                }
            }
            Seg::CopyBack { dist, len } => {
                if out.is_empty() {
                    out.resize(*len as usize, 0x5a);
                    return;
                }
                let d = (*dist as usize).clamp(1, out.len());
                for _ in 0..*len {
                    let b = out[out.len() - d];
                    out.push(b);
                }
            }
            Seg::Text { n, seed } => {
                let mut s = *seed;
                let target = out.len() + *n as usize;
                while out.len() < target {
                    let w = WORDS[(splitmix64(&mut s) >> 33) as usize % WORDS.len()];
                    out.extend_from_slice(w.as_bytes());
                }
                out.truncate(target);
            }
            Seg::Sparse { n, gap, rep, seed } => {
                let mut s = *seed;
                let start = out.len();
                let gap = (*gap).max(8) as usize;
                let rep = (*rep).clamp(3, 8) as usize;
                while out.len() - start < *n as usize {
                    let here = out.len() - start;
                    if here >= gap && here % gap < rep && here >= rep + 1 {
                        // repeat bytes from one gap ago
                        let b = out[out.len() - gap];
                        out.push(b);
                    } else {
                        out.push((splitmix64(&mut s) >> 17) as u8);
                    }
                }
            }
            Seg::LazyEdge { records, prefix, seed } => {
                let mut s = *seed;
                for _ in 0..*prefix {
                    out.push(splitmix64(&mut s) as u8);
                }
                // two tails sharing their first 50 bytes
                let mut t1: Vec<u8> = (0..300).map(|_| splitmix64(&mut s) as u8).collect();
                let mut t2 = t1.clone();
                for b in t2.iter_mut().skip(50) {
                    *b = splitmix64(&mut s) as u8;
                }
                // keep the varying byte out of the tails' first byte to avoid accidental long matches
                t1[0] = 0xfe;
                t2[0] = 0xfe;
                for i in 0..*records {
                    // 90 x 301 bytes = 27090: the other-tail record with the same first byte is inside the window,
                    // the same-tail one (54180 back) is not
                    out.push((i % 90) as u8);
                    out.extend_from_slice(if (i / 90) % 2 == 0 { &t1 } else { &t2 });
                }
            }
            Seg::Raw(v) => out.extend_from_slice(v),
            Seg::Skewed { n, syms, seed } => {
                let mut s = *seed;
                let k = (*syms).clamp(2, 40) as usize;
                // cumulative weights w_i = phi^(k-1-i)
                let mut w = Vec::with_capacity(k);
                let mut x = 1.0f64;
                for _ in 0..k {
                    w.push(x);
                    x *= 1.618_033_988_75;
                }
                let total: f64 = w.iter().sum();
                let base = (splitmix64(&mut s) & 0xff) as u8;
                for _ in 0..*n {
                    let r = (splitmix64(&mut s) >> 11) as f64 / (1u64 << 53) as f64 * total;
                    let mut acc = 0.0;
                    let mut sym = k - 1;
                    for (i, wi) in w.iter().enumerate() {
                        acc += wi;
                        if r < acc {
                            sym = i;
                            break;
                        }
                    }
                    out.push(base.wrapping_add((sym as u8).wrapping_mul(7)));
                }
            }
        }
    }
}

impl Recipe {
    pub fn expand(&self) -> Vec<u8> {
        let mut out = Vec::new();
        for s in &self.segs {
            s.append(&mut out);
        }
        if self.twice {
            let c = out.clone();
            out.extend_from_slice(&c);
        }
        out
    }
    pub fn raw(v: &[u8]) -> Recipe {
        Recipe { segs: vec![Seg::Raw(v.to_vec())], twice: false }
    }
}

/// Sizes: mass on thresholds named by the properties, and a tail up to `max`.
pub fn size(max: u32) -> BoxedStrategy<u32> {
    let specials: Vec<u32> = vec![
        0, 1, 2, 3, 4, 5, 31, 32, 33, 47, 48, 49, 257, 258, 259, 260, 4095, 4096, 4097, 8191, 8192, 8193, 31743, 31744, 31745, 32510, 32767, 32768, 32769, 58249, 58250, 58251, 65534, 65535, 65536, 65537, 85180, 85195, 85196, 85197,
    ];
    let sp: Vec<u32> = specials.into_iter().filter(|&s| s <= max).collect();
    prop_oneof![
        4 => 0u32..=64.min(max),
        4 => 0u32..=600.min(max),
        3 => 0u32..=5000.min(max),
        2 => proptest::sample::select(sp),
        1 => 0u32..=max,
        1 => max / 2..=max,
    ]
    .boxed()
}

pub fn seg(max: u32) -> BoxedStrategy<Seg> {
    let dists: Vec<u32> = vec![1, 2, 3, 4, 7, 8, 257, 258, 259, 260, 4095, 4096, 4097, 8191, 8192, 8193, 16384, 32767, 32768, 32769, 40000];
    prop_oneof![
        3 => (size(max), any::<u64>()).prop_map(|(n, seed)| Seg::Random { n, seed }),
        2 => (any::<u8>(), size(max)).prop_map(|(byte, n)| Seg::Run { byte, n }),
        2 => (1u8..=8, size(max), any::<u64>()).prop_map(|(k, n, seed)| Seg::Alphabet { k, n, seed }),
        1 => (size(max), any::<u64>()).prop_map(|(n, seed)| Seg::High { n, seed }),
        3 => (prop_oneof![proptest::sample::select(dists), 1u32..=40000], prop_oneof![3u32..=300, size(max)]).prop_map(|(dist, len)| Seg::CopyBack { dist, len }),
        2 => (size(max), any::<u64>()).prop_map(|(n, seed)| Seg::Text { n, seed }),
        1 => (size(max), 8u16..600, 3u8..=6, any::<u64>()).prop_map(|(n, gap, rep, seed)| Seg::Sparse { n, gap, rep, seed }),
        1 => proptest::collection::vec(any::<u8>(), 0..12).prop_map(Seg::Raw),
        2 => (size(max), 8u8..=40, any::<u64>()).prop_map(|(n, syms, seed)| Seg::Skewed { n, syms, seed }),
    ]
    .boxed()
}

pub fn recipe(max_seg: u32, max_segs: usize) -> BoxedStrategy<Recipe> {
    (prop_oneof![1 => Just(vec![]), 30 => proptest::collection::vec(seg(max_seg), 1..=max_segs.max(1))], proptest::bool::weighted(0.12)).prop_map(|(segs, twice)| Recipe { segs, twice }).boxed()
}

/// inputs of 30-120 KB built to exercise the 32 KiB dictionary wrap: a large base followed by
/// copies at distances around 32 KiB and short tails, so that matches straddle the wrap point
pub fn recipe_wrap() -> BoxedStrategy<Recipe> {
    let base = prop_oneof![
        (20_000u32..=70_000, any::<u64>()).prop_map(|(n, seed)| Seg::Text { n, seed }),
        (20_000u32..=70_000, any::<u64>()).prop_map(|(n, seed)| Seg::Random { n, seed }),
        (1u8..=6, 20_000u32..=70_000, any::<u64>()).prop_map(|(k, n, seed)| Seg::Alphabet { k, n, seed }),
        (20_000u32..=70_000, 30u16..600, 3u8..=6, any::<u64>()).prop_map(|(n, gap, rep, seed)| Seg::Sparse { n, gap, rep, seed }),
    ];
    let near32k = prop_oneof![32_000u32..=32_768, 32_500u32..=33_100, 257u32..=300, 1u32..=4, 8_000u32..=8_400];
    let tail = prop_oneof![
        3 => (near32k, prop_oneof![3u32..=300, 200u32..=3000]).prop_map(|(dist, len)| Seg::CopyBack { dist, len }),
        1 => (0u32..=600, any::<u64>()).prop_map(|(n, seed)| Seg::Random { n, seed }),
        1 => (0u32..=3000, any::<u64>()).prop_map(|(n, seed)| Seg::Text { n, seed }),
    ];
    (base, proptest::collection::vec(tail, 0..10), proptest::bool::weighted(0.1)).prop_map(|(b, mut t, twice)| {
        t.insert(0, b);
        Recipe { segs: t, twice }
    }).boxed()
}
