//! proptest strategies for the stream grammar (oracle::streamgen).

use crate::oracle::streamgen::*;
use proptest::prelude::*;

pub fn bytes(max: u32) -> BoxedStrategy<Bytes> {
    prop_oneof![
        3 => proptest::collection::vec(any::<u8>(), 0..=24).prop_map(Bytes::Raw),
        2 => (0u32..=max.min(300), any::<u64>()).prop_map(|(n, seed)| Bytes::Rand { n, seed }),
        1 => (0u32..=max, any::<u64>()).prop_map(|(n, seed)| Bytes::Rand { n, seed }),
        1 => (0u32..=max, any::<u8>()).prop_map(|(n, b)| Bytes::Fill { n, b }),
        1 => Just(Bytes::Raw(vec![])),
    ]
    .boxed()
}

fn lit() -> BoxedStrategy<u8> {
    prop_oneof![3 => any::<u8>(), 2 => proptest::sample::select(vec![0u8, 1, 65, 66, 67, 143, 144, 255]), 1 => 97u8..=100].boxed()
}

fn mlen() -> BoxedStrategy<u16> {
    // ends of each length code's extra-bit range, plus uniform
    let ends: Vec<u16> = vec![3, 4, 10, 11, 12, 13, 14, 18, 19, 22, 23, 34, 35, 42, 66, 67, 82, 114, 115, 130, 131, 162, 163, 194, 195, 226, 227, 256, 257, 258];
    prop_oneof![3 => proptest::sample::select(ends), 3 => 3u16..=258, 2 => 3u16..=12, 1 => Just(258u16)].boxed()
}

fn dsel() -> BoxedStrategy<u16> {
    prop_oneof![3 => any::<u16>(), 2 => Just(0u16), 2 => Just(65535u16), 2 => 0u16..=64, 1 => 65000u16..=65535].boxed()
}

pub fn gtok() -> BoxedStrategy<GTok> {
    prop_oneof![
        5 => lit().prop_map(GTok::Lit),
        4 => (mlen(), dsel(), any::<bool>()).prop_map(|(len, dsel, alt258)| GTok::Match { len, dsel, alt258 }),
    ]
    .boxed()
}

/// tokens that produce a lot of output quickly (to get past 32 KiB / wrap rings)
fn bulk_tok() -> BoxedStrategy<GTok> {
    prop_oneof![
        1 => lit().prop_map(GTok::Lit),
        6 => (200u16..=258, dsel(), any::<bool>()).prop_map(|(len, dsel, alt258)| GTok::Match { len, dsel, alt258 }),
    ]
    .boxed()
}

pub fn code_params() -> BoxedStrategy<CodeParams> {
    (
        any::<u64>(),
        prop_oneof![Just(0u8), Just(255u8), any::<u8>(), 200u8..=255],
        prop_oneof![3 => Just(15u8), 1 => 9u8..=15],
        prop_oneof![3 => Just(0u8), 2 => 0u8..=6, 1 => 0u8..=40],
        prop_oneof![3 => Just(0u8), 2 => 0u8..=4, 1 => 0u8..=29],
        prop_oneof![3 => Just(0u8), 1 => 0u8..=29],
        prop_oneof![3 => Just(0u8), 1 => 0u8..=29],
        prop_oneof![3 => Just(0u8), 1 => 0u8..=15],
        0u8..=2,
        any::<bool>(),
    )
        .prop_map(|(seed, p_deep, max_len, extra_lit, extra_dist, hlit_slack, hdist_slack, hclen_slack, rle_mode, keep_single)| CodeParams { seed, p_deep, max_len, extra_lit, extra_dist, hlit_slack, hdist_slack, hclen_slack, rle_mode, keep_single })
        .boxed()
}

pub fn block(max_toks: usize, stored_max: u32, bulk: bool) -> BoxedStrategy<Block> {
    let toks = if bulk { proptest::collection::vec(bulk_tok(), 0..=max_toks).boxed() } else { prop_oneof![3 => proptest::collection::vec(gtok(), 0..=max_toks.min(12)), 3 => proptest::collection::vec(gtok(), 0..=max_toks), 1 => Just(vec![])].boxed() };
    prop_oneof![
        2 => (bytes(stored_max), any::<u8>()).prop_map(|(data, pad)| Block::Stored { data, pad }),
        3 => toks.clone().prop_map(|toks| Block::Fixed { toks }),
        5 => (toks, code_params()).prop_map(|(toks, code)| Block::Dynamic { toks, code }),
    ]
    .boxed()
}

/// zlib: None = raw only, Some(true) = zlib only, otherwise mixed
pub fn stream(max_blocks: usize, max_toks: usize, stored_max: u32, zlib: Option<bool>, bulk_share: u32) -> BoxedStrategy<StreamRecipe> {
    let z = match zlib {
        Some(true) => (prop_oneof![3 => Just(7u8), 1 => 0u8..=7], 0u8..=3).prop_map(Some).boxed(),
        Some(false) => Just(None).boxed(),
        None => prop_oneof![1 => Just(None), 1 => (prop_oneof![3 => Just(7u8), 1 => 0u8..=7], 0u8..=3).prop_map(Some)].boxed(),
    };
    let blocks = prop_oneof![
        (20 - bulk_share.min(19)) => proptest::collection::vec(block(max_toks, stored_max, false), 1..=max_blocks),
        bulk_share.max(1) => proptest::collection::vec(block(max_toks.max(200), stored_max.max(40000), true), 1..=max_blocks.min(4)),
    ];
    (z, blocks).prop_map(|(zlib, blocks)| StreamRecipe { zlib, blocks, directive: None }).boxed()
}

pub fn directive() -> BoxedStrategy<Directive> {
    (proptest::sample::select(ALL_DKINDS.to_vec()), any::<u16>(), any::<u16>()).prop_map(|(kind, block, pos)| Directive { kind, block, pos }).boxed()
}

pub fn stream_with_directive(max_blocks: usize, max_toks: usize, stored_max: u32, zlib: Option<bool>) -> BoxedStrategy<StreamRecipe> {
    (stream(max_blocks, max_toks, stored_max, zlib, 1), directive())
        .prop_map(|(mut s, d)| {
            // header/trailer directives need a zlib wrapper
            if matches!(d.kind, DKind::ZCm | DKind::ZCinfo | DKind::ZFdict | DKind::ZFcheck | DKind::BadAdler) && s.zlib.is_none() {
                s.zlib = Some((7, 2));
            }
            // make sure a block of the kind the directive needs exists
            use DKind::*;
            let toks = vec![GTok::Lit(65), GTok::Lit(66), GTok::Match { len: 5, dsel: 0, alt258: false }, GTok::Lit(67)];
            let need_dyn = matches!(d.kind, Hlit287 | Hlit288 | Hdist31 | Hdist32 | HlitHdistMax | OversubLit | OversubDist | OversubClc | IncompleteLit | IncompleteDist | IncompleteClc | Rep16First | RepOverrun | UnassignedLit | UnassignedDist | NoDistCodeMatch);
            let need_fixed = matches!(d.kind, Lit286 | Lit287 | Dist30 | Dist31);
            let need_coded = matches!(d.kind, DistTooFar);
            let need_stored = matches!(d.kind, BadNlen);
            if need_dyn && !s.blocks.iter().any(|b| matches!(b, Block::Dynamic { .. })) {
                let code = CodeParams { seed: d.pos as u64, p_deep: (d.block & 0xff) as u8, max_len: 15, extra_lit: 1, extra_dist: 1, hlit_slack: 0, hdist_slack: 0, hclen_slack: 0, rle_mode: (d.pos % 3) as u8, keep_single: true };
                s.blocks.push(Block::Dynamic { toks: toks.clone(), code });
            }
            if (need_fixed || need_coded) && !s.blocks.iter().any(|b| matches!(b, Block::Fixed { .. })) {
                s.blocks.push(Block::Fixed { toks: toks.clone() });
            }
            if need_stored && !s.blocks.iter().any(|b| matches!(b, Block::Stored { .. })) {
                s.blocks.push(Block::Stored { data: Bytes::Raw(vec![1, 2, 3]), pad: d.pos as u8 });
            }
            s.directive = Some(d);
            s
        })
        .boxed()
}
