pub mod config;
pub mod data;
pub mod stream;
