use mzv::props;
use mzv::runner::worker::{replay, run_worker, WorkerArgs};
use mzv::runner::{orchestrator::orchestrate, Tier};

macro_rules! dispatch {
    ($id:expr, $f:ident $(, $a:expr)*) => {
        match $id {
            "C01" => $f::<props::c01::P>($($a),*),
            "C02" => $f::<props::c02::P>($($a),*),
            "C03" => $f::<props::c03::P>($($a),*),
            "C04" => $f::<props::c04::P>($($a),*),
            "C05" => $f::<props::c05::P>($($a),*),
            "C06" => $f::<props::c06::P>($($a),*),
            "C07" => $f::<props::c07::P>($($a),*),
            "C08" => $f::<props::c08::P>($($a),*),
            "C09" => $f::<props::c09::P>($($a),*),
            "C10" => $f::<props::c10::P>($($a),*),
            "C11" => $f::<props::c11::P>($($a),*),
            "C12" => $f::<props::c12::P>($($a),*),
            "C13" => $f::<props::c13::P>($($a),*),
            "C14" => $f::<props::c14::P>($($a),*),
            "C15" => $f::<props::c15::P>($($a),*),
            "C16" => $f::<props::c16::P>($($a),*),
            "C17" => $f::<props::c17::P>($($a),*),
            "C18" => $f::<props::c18::P>($($a),*),
            "C19" => $f::<props::c19::P>($($a),*),
            other => {
                eprintln!("unknown property {other}");
                std::process::exit(2)
            }
        }
    };
}

fn arg<'a>(args: &'a [String], name: &str) -> Option<&'a str> {
    args.iter().position(|a| a == name).and_then(|i| args.get(i + 1)).map(|s| s.as_str())
}

/// Memory guard for worker / replay processes: a case that makes the code under test (or the harness
/// loop driving it) allocate without bound must not take the machine down before the stall watchdog
/// fires. Resident set above 8 GiB ends the process: a worker with exit 3 (the orchestrator then blames
/// the journalled case and replays it in isolation), an isolated replay with exit 2 (inconclusive).
fn memory_guard(exit_code: i32) {
    std::thread::spawn(move || loop {
        std::thread::sleep(std::time::Duration::from_millis(200));
        let rss_pages = std::fs::read_to_string("/proc/self/statm").ok().and_then(|s| s.split_whitespace().nth(1).and_then(|x| x.parse::<u64>().ok())).unwrap_or(0);
        if rss_pages * 4096 > 8u64 << 30 {
            eprintln!("memory guard: resident set above 8 GiB, giving up on this case");
            std::process::exit(exit_code);
        }
    });
}

fn main() {
    // Many checks clone 300 KB compressor states millions of times; keep malloc from going to the
    // kernel (mmap/munmap/brk trimming) for every clone, which serialises badly across 16 processes.
    // SAFETY: plain mallopt calls before any threads exist
    unsafe {
        libc::mallopt(libc::M_MMAP_THRESHOLD, 32 << 20);
        libc::mallopt(libc::M_TRIM_THRESHOLD, 1 << 30);
        libc::mallopt(libc::M_TOP_PAD, 64 << 20);
    }
    let args: Vec<String> = std::env::args().collect();
    if args.len() < 3 {
        eprintln!("usage: mzv check <Cxx> <quick|thorough> | worker … | replay <Cxx> <file> [--profile p] | selfcheck");
        std::process::exit(2);
    }
    let profile_default = if cfg!(debug_assertions) { "dbg" } else { "rel" };
    let code = match args[1].as_str() {
        "check" => {
            let tier = Tier::parse(args.get(3).map(|s| s.as_str()).unwrap_or("quick")).unwrap_or_else(|| {
                eprintln!("bad tier");
                std::process::exit(2)
            });
            dispatch!(args[2].as_str(), orchestrate, tier)
        }
        "worker" => {
            memory_guard(3);
            let tier = Tier::parse(&args[3]).expect("tier");
            let a = WorkerArgs {
                tier,
                seed: arg(&args, "--seed").unwrap().parse().unwrap(),
                widx: arg(&args, "--widx").unwrap().parse().unwrap(),
                nworkers: arg(&args, "--nw").unwrap().parse().unwrap(),
                profile: arg(&args, "--profile").unwrap_or(profile_default).to_string(),
                out: arg(&args, "--out").unwrap().into(),
                journal: arg(&args, "--journal").map(Into::into),
                cases: arg(&args, "--cases").unwrap().parse().unwrap(),
                do_fixed: !args.iter().any(|a| a == "--no-fixed"),
                do_selfcheck: args.iter().any(|a| a == "--selfcheck"),
            };
            dispatch!(args[2].as_str(), run_worker, &a)
        }
        "replay" => {
            memory_guard(2);
            let file = std::path::PathBuf::from(&args[3]);
            let profile = arg(&args, "--profile").unwrap_or(profile_default).to_string();
            let tier = Tier::Quick;
            dispatch!(args[2].as_str(), replay, &file, &profile, tier)
        }
        "selfcheck" => match mzv::oracle::selfcheck::run(3000, 3000) {
            Ok(s) => {
                println!("oracle self-check ok: {} valid, {} directive ({} applied), {} zlib cross-checks, {} checksum buffers", s.valid_streams, s.directive_streams, s.directives_applied, s.zlib_crosschecks, s.checksum_buffers);
                0
            }
            Err(e) => {
                eprintln!("oracle self-check FAILED: {e}");
                2
            }
        },
        "gencorpus" => {
            // mzv gencorpus <target> <dir> <n> [seed]: seed corpus for the libFuzzer targets
            let target = args[2].as_str();
            let dir = std::path::PathBuf::from(&args[3]);
            let n: usize = args.get(4).and_then(|s| s.parse().ok()).unwrap_or(200);
            let seed: u64 = args.get(5).and_then(|s| s.parse().ok()).unwrap_or(1);
            std::fs::create_dir_all(&dir).expect("corpus dir");
            use proptest::strategy::{Strategy, ValueTree};
            let mut runner = mzv::runner::worker::make_runner(seed ^ 0xc0ffee);
            let strat = mzv::props::common::any_input();
            let mut cx = mzv::runner::Ctx::new(Tier::Quick, "corpus", vec![]);
            let mut s = seed;
            for i in 0..n {
                let inp = strat.new_tree(&mut runner).expect("gen").current();
                let Some((bytes, zl)) = inp.bytes(&mut cx) else { continue };
                if bytes.len() > 4000 {
                    continue;
                }
                let r = mzv::oracle::sums::splitmix64(&mut s);
                let mut f: Vec<u8> = Vec::new();
                match target {
                    "decode_total" => {
                        let nops = 1 + (r % 6) as u8;
                        f.push(nops - 1 | if zl { 0x80 } else { 0 });
                        for k in 0..nops {
                            let x = mzv::oracle::sums::splitmix64(&mut s).to_le_bytes();
                            f.extend_from_slice(&[5 + (x[0] % 11) | if k == 0 { 0x80 } else { 0 } | 0x20, if zl { 5 } else { 4 }, x[2], x[3]]);
                        }
                    }
                    "inflate_proto" => {
                        let nc = 1 + (r % 8) as u8;
                        f.push(nc - 1 | if zl { 0x80 } else { 0 });
                        for _ in 0..nc {
                            let x = mzv::oracle::sums::splitmix64(&mut s).to_le_bytes();
                            f.extend_from_slice(&[x[0], x[1]]);
                        }
                    }
                    "compress_sched" => {
                        // structured target: random bytes are already meaningful
                        for _ in 0..6 {
                            f.extend_from_slice(&mzv::oracle::sums::splitmix64(&mut s).to_le_bytes());
                        }
                        std::fs::write(dir.join(format!("seed-{i:05}")), &f).expect("write seed");
                        continue;
                    }
                    _ => {
                        f.push((r as u8 & 0xfe) | zl as u8);
                        f.push((r >> 8) as u8);
                    }
                }
                f.extend_from_slice(&bytes);
                std::fs::write(dir.join(format!("seed-{i:05}")), &f).expect("write seed");
            }
            0
        }
        _ => {
            eprintln!("unknown subcommand");
            2
        }
    };
    std::process::exit(code);
}
