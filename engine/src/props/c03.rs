//! C03: every valid DEFLATE/zlib stream decodes to exactly its plaintext through every entry point.

use super::common::*;
use crate::runner::*;
use crate::sut::dec::*;
use crate::sut::*;
use crate::{vensure, vfail};
use miniz_oxide::inflate::stream::InflateState;
use miniz_oxide::inflate::{decompress_slice_iter_to_slice, decompress_to_vec, decompress_to_vec_with_limit, decompress_to_vec_zlib, decompress_to_vec_zlib_with_limit};
use miniz_oxide::{MZFlush, MZStatus};
use proptest::prelude::*;
use serde::{Deserialize, Serialize};

#[derive(Clone, Debug, Serialize, Deserialize)]
pub struct Case {
    pub src: Src,
    pub sched: DecSched,
    /// ring size selector for the "other legal ring size" entry point
    pub ring_sel: u8,
    pub ring_start: u32,
    pub fill_seed: u64,
    pub out_sizes: Vec<u32>,
    pub slice_cuts: Vec<u32>,
}

pub struct P;

impl Prop for P {
    const ID: &'static str = "C03";
    type Case = Case;
    fn meta() -> Meta {
        Meta {
            level: "exploration",
            rule: "streams from 4 sources (grammar-constructed valid DEFLATE/zlib streams weighted highest; the crate's compressor; system zlib; repository files), each pushed through ~10 decoder entry points with a generated chunk/budget schedule; plaintext oracle = token expansion / reference inflater. Non-trivial = the stream contains a used code > 10 bits, a one-symbol code, a stored block at a non-zero bit offset, an empty block, a code-length run crossing the literal/distance boundary, a length-258 or distance-32768 match, or an overlapping copy; distinct by fingerprint of the whole case",
            assumptions: &["reference inflater (oracle/inflate.rs) implements RFC 1951/1950; cross-checked against the grammar's own token expansion and system zlib in the self-check", "RFC-silent table shapes follow zlib's convention (DESIGN 3.1)"],
            dbg: false,
            simd: false,
            exhaustive: None,
        }
    }
    fn cases(tier: Tier) -> u64 {
        tier.pick(300_000, 3_000_000)
    }
    fn strategy(tier: Tier) -> BoxedStrategy<Case> {
        let src = match tier {
            Tier::Quick => prop_oneof![9 => valid_src(false), 1 => valid_src(true)].boxed(),
            Tier::Thorough => prop_oneof![6 => valid_src(false), 2 => valid_src(true)].boxed(),
        };
        (src, dec_sched(), any::<u8>(), any::<u32>(), any::<u64>(), proptest::collection::vec(prop_oneof![1u32..=4, 1u32..=300, Just(1u32 << 16)], 1..4), proptest::collection::vec(any::<u32>(), 0..5))
            .prop_map(|(src, sched, ring_sel, ring_start, fill_seed, out_sizes, slice_cuts)| Case { src, sched, ring_sel, ring_start, fill_seed, out_sizes, slice_cuts })
            .boxed()
    }
    fn self_check(cx: &mut Ctx) -> Result<(), String> {
        let s = crate::oracle::selfcheck::run(cx.tier.pick(600, 5000), cx.tier.pick(600, 5000))?;
        cx.notes.insert("oracle_self_check".into(), serde_json::json!({"valid_streams": s.valid_streams, "directive_streams": s.directive_streams, "directives_applied": s.directives_applied, "zlib_crosschecks": s.zlib_crosschecks, "checksum_buffers": s.checksum_buffers}));
        Ok(())
    }
    fn check(case: &Case, cx: &mut Ctx) -> Check {
        let Some(t) = realize(&case.src, cx) else { return Ok(()) };
        cx.class(&format!("source:{}", t.source));
        if !t.valid() {
            cx.class("skipped:not-valid-per-reference");
            return Ok(());
        }
        let plain = t.plain().to_vec();
        let n = plain.len();
        let data = &t.bytes[..];
        let zf = zflags(t.zlib);
        if classify_stream(&t.r, cx) {
            cx.nontrivial();
        }
        cx.class(&format!("size:{}", match n { 0 => "0", 1..=64 => "1-64", 65..=4096 => "65-4K", 4097..=32768 => "4K-32K", _ => ">32K" }));
        let max_dist = t.r.max_dist() as usize;

        // 1. vector functions
        let v = guard(|| if t.zlib { decompress_to_vec_zlib(data) } else { decompress_to_vec(data) }).map_err(|pm| Violation::new(panic_sig("to_vec", &pm), format!("decompress_to_vec panicked: {pm}")))?;
        match v {
            Ok(o) => vensure!(o == plain, "c03:to_vec-wrong-output", "decompress_to_vec{} returned {} bytes, differing from the {} byte plaintext", if t.zlib { "_zlib" } else { "" }, o.len(), n),
            Err(e) => vfail!("c03:to_vec-rejected-valid", "decompress_to_vec{} rejected a valid stream: {:?} after {} bytes", if t.zlib { "_zlib" } else { "" }, e.status, e.output.len()),
        }
        for lim in [usize::MAX, n.max(1) * 3 + 7, n] {
            let v = guard(|| if t.zlib { decompress_to_vec_zlib_with_limit(data, lim) } else { decompress_to_vec_with_limit(data, lim) }).map_err(|pm| Violation::new(panic_sig("to_vec_limit", &pm), format!("decompress_to_vec_with_limit panicked: {pm}")))?;
            match v {
                Ok(o) => vensure!(o == plain, "c03:to_vec_limit-wrong-output", "with_limit({lim}) output differs"),
                Err(e) => vfail!("c03:to_vec_limit-rejected-valid", "with_limit({lim}) rejected a valid stream of {n} bytes: {:?}", e.status),
            }
        }
        cx.evals(4);

        // 2. core, flat, one call, exact-size buffer
        let r1 = flat_oneshot(data, zf, n)?;
        vensure!(r1.status == TINFLStatus::Done && r1.out == plain && r1.consumed == t.enc_len(), "c03:flat-oneshot", "flat one-call: status {} out {} (want {}) consumed {} (want {})", status_name(r1.status), r1.out.len(), n, r1.consumed, t.enc_len());

        // 3. core, flat, schedule, one spare byte
        let mut d = DecompressorOxide::new();
        let r2 = drive(&mut d, data, &DriveOpts { flags: zf, mode: BufMode::Flat { cap: n + 1 }, sched: &case.sched, canary: n < 70000, max_calls: None, announce: true, flat_start: 0, probe_full_ring: false }, plain_hook)?;
        vensure!(r2.status == TINFLStatus::Done && r2.out == plain && r2.consumed == t.enc_len(), "c03:flat-schedule", "flat scheduled: status {} out {} (want {}) consumed {} (want {}) after {} calls", status_name(r2.status), r2.out.len(), n, r2.consumed, t.enc_len(), r2.calls);
        for (s, st) in &r2.suspensions {
            cx.class(&format!("suspend:{}:{}", state_name(*s), status_name(*st)));
        }

        // 4. core, 32 KiB ring, schedule
        let mut d = DecompressorOxide::new();
        let r3 = drive(&mut d, data, &DriveOpts { flags: zf, mode: BufMode::Ring { bits: 15, start: case.ring_start, fill_seed: case.fill_seed }, sched: &case.sched, canary: n < 70000, max_calls: None, announce: true, flat_start: 0, probe_full_ring: false }, plain_hook)?;
        vensure!(r3.status == TINFLStatus::Done && r3.out == plain && r3.consumed == t.enc_len(), "c03:ring32k", "32 KiB ring: status {} out {} (want {}) consumed {} (want {})", status_name(r3.status), r3.out.len(), n, r3.consumed, t.enc_len());
        if n > 32768 {
            cx.class("ring32k:wrapped");
        }

        // 5. ring of another legal size: >= largest distance used and >= declared zlib window
        let mut min_bits = 0u8;
        while (1usize << min_bits) < max_dist.max(1) {
            min_bits += 1;
        }
        if let Some((cmf, _)) = t.r.header {
            min_bits = min_bits.max((cmf >> 4) + 8);
        }
        let bits = min_bits + case.ring_sel % (17 - min_bits);
        let mut d = DecompressorOxide::new();
        let r4 = drive(&mut d, data, &DriveOpts { flags: zf, mode: BufMode::Ring { bits, start: case.ring_start, fill_seed: case.fill_seed }, sched: &case.sched, canary: n < 70000, max_calls: None, announce: true, flat_start: 0, probe_full_ring: false }, plain_hook)?;
        vensure!(r4.status == TINFLStatus::Done && r4.out == plain && r4.consumed == t.enc_len(), "c03:ring-other", "ring 2^{bits}: status {} out {} (want {}) consumed {} (want {})", status_name(r4.status), r4.out.len(), n, r4.consumed, t.enc_len());
        cx.class(&format!("ringbits:{bits:02}"));
        cx.evals(3);

        // 6. slice iterator helper
        {
            let mut cuts: Vec<usize> = case.slice_cuts.iter().map(|&c| c as usize % (data.len() + 1)).collect();
            cuts.sort();
            cuts.dedup();
            // every third cut twice: an empty slice in the middle of the sequence
            let cuts: Vec<usize> = cuts.iter().enumerate().flat_map(|(i, &c)| if i % 3 == 0 { vec![c, c] } else { vec![c] }).collect();
            let mut slices: Vec<&[u8]> = Vec::new();
            let mut p = 0;
            for c in cuts {
                slices.push(&data[p..c]);
                p = c;
            }
            slices.push(&data[p..]);
            let several = slices.len() > 1;
            let mut out = vec![0u8; n + several as usize];
            let res = guard(|| decompress_slice_iter_to_slice(&mut out, slices.iter().copied(), t.zlib, false)).map_err(|pm| Violation::new(panic_sig("slice_iter", &pm), format!("decompress_slice_iter_to_slice panicked: {pm}")))?;
            vensure!(res == Ok(n) && out[..n] == plain[..], "c03:slice-iter", "decompress_slice_iter_to_slice over {} slices returned {:?}, want Ok({n})", slices.len(), res);
            // one slice, exact buffer
            let mut out = vec![0u8; n];
            let res = guard(|| decompress_slice_iter_to_slice(&mut out, std::iter::once(data), t.zlib, false)).map_err(|pm| Violation::new(panic_sig("slice_iter", &pm), format!("decompress_slice_iter_to_slice panicked: {pm}")))?;
            vensure!(res == Ok(n) && out == plain, "c03:slice-iter-single", "single-slice decompress_slice_iter_to_slice returned {:?}, want Ok({n})", res);
            cx.evals(2);
        }

        // 7. streaming inflate wrapper: None throughout; None then Finish; one Finish call
        let chunks = &case.sched.chunks;
        for (variant, mid, fin) in [("none", MZFlush::None, false), ("sync", MZFlush::Sync, false), ("none-then-finish", MZFlush::None, true)] {
            let mut st = InflateState::new_boxed(fmt_of(t.zlib));
            // make sure the first call is not a Finish call (documented shortcut needs the whole output to fit)
            let mut ch: Vec<u32> = chunks.clone();
            if fin && (ch.is_empty() || ch[0] as usize >= data.len()) {
                ch.insert(0, (data.len() / 2) as u32);
                if data.len() < 2 {
                    continue;
                }
            }
            let r = inflate_loop_driver(&mut st, data, &ch, &case.out_sizes, mid, fin)?;
            vensure!(r.status == Ok(MZStatus::StreamEnd) && r.out == plain && r.consumed == t.enc_len(), "c03:inflate-loop", "inflate() loop [{variant}]: status {:?} out {} (want {}) consumed {} (want {}) after {} calls", r.status, r.out.len(), n, r.consumed, t.enc_len(), r.calls);
        }
        {
            let mut st = InflateState::new_boxed(fmt_of(t.zlib));
            let r = inflate_loop_driver(&mut st, data, &[], &[(n + 1) as u32], MZFlush::None, true)?;
            vensure!(r.status == Ok(MZStatus::StreamEnd) && r.out == plain && r.consumed == t.enc_len(), "c03:inflate-finish-oneshot", "inflate() single Finish call: status {:?} out {} (want {})", r.status, r.out.len(), n);
        }
        {
            // the window-bits constructor: any positive value means zlib, zero or negative raw
            // (documented; the decoder has one window size)
            let pos = [1i32, 7, 8, 9, 14, 15, 16, 31, 47, i32::MAX];
            let neg = [0i32, -1, -8, -15, -16, i32::MIN];
            let k = (case.fill_seed >> 20) as usize;
            let wb = if t.zlib { pos[k % pos.len()] } else { neg[k % neg.len()] };
            let mut st = InflateState::new_boxed_with_window_bits(wb);
            let r = inflate_loop_driver(&mut st, data, chunks, &case.out_sizes, MZFlush::None, false)?;
            vensure!(r.status == Ok(MZStatus::StreamEnd) && r.out == plain && r.consumed == t.enc_len(), "c03:inflate-window-bits-ctor", "InflateState::new_boxed_with_window_bits({wb}) on a valid {} stream: status {:?} out {} (want {})", if t.zlib { "zlib" } else { "raw" }, r.status, r.out.len(), n);
            vensure!(miniz_oxide::DataFormat::from_window_bits(wb) == fmt_of(t.zlib), "c03:from_window_bits", "DataFormat::from_window_bits({wb})");
        }
        cx.evals(5);

        // 8. byte-by-byte with 1-byte budgets: which automaton states are reached as suspension points
        if data.len() <= 1500 && n <= 6000 {
            let sched = DecSched { chunks: vec![1; data.len() + 2], budgets: vec![1; n + data.len() + 8] };
            let mut d = DecompressorOxide::new();
            let r5 = drive(&mut d, data, &DriveOpts { flags: zf, mode: BufMode::Flat { cap: n + 1 }, sched: &sched, canary: false, max_calls: None, announce: true, flat_start: 0, probe_full_ring: false }, plain_hook)?;
            vensure!(r5.status == TINFLStatus::Done && r5.out == plain && r5.consumed == t.enc_len(), "c03:flat-bytewise", "byte-by-byte: status {} out {} (want {})", status_name(r5.status), r5.out.len(), n);
            for (s, _) in &r5.suspensions {
                cx.class(&format!("state-as-suspension:{}", state_name(*s)));
            }
            cx.evals(1);
        }
        Ok(())
    }
}
