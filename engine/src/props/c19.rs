//! C19: decoder snapshots resume identically: clone, serialisation, block boundary.

use super::common::*;
use crate::runner::*;
use crate::sut::dec::*;
use crate::sut::*;
use crate::vensure;
use miniz_oxide::inflate::core::BlockBoundaryState;
use miniz_oxide::inflate::stream::{inflate, InflateState};
use miniz_oxide::MZFlush;
use proptest::prelude::*;
use serde::{Deserialize, Serialize};

#[derive(Clone, Copy, Debug, Serialize, Deserialize, PartialEq, Eq)]
pub enum Snap {
    Clone,
    Rmp,
    Json,
}

#[derive(Clone, Debug, Serialize, Deserialize)]
pub enum Case {
    /// snapshot/restore the low-level decoder after the calls selected by `every`/`phase`
    Core { input: AnyInput, sched: DecSched, ring: Option<(u8, u32, u64)>, snap: Snap, every: u8, phase: u8 },
    /// stop at every block boundary, rebuild from the boundary record + last 32 KiB
    Boundary { src: Src, sched: DecSched, keep_zlib_fields: bool, scrub: bool, ring: Option<(u8, u32)> },
    /// InflateState::clone between calls
    Wrapper { src: Src, chunks: Vec<u32>, outs: Vec<u32>, every: u8 },
}

pub struct P;

type Trace = Vec<(TINFLStatus, usize, usize)>;

impl Prop for P {
    const ID: &'static str = "C19";
    type Case = Case;
    fn meta() -> Meta {
        Meta {
            level: "exploration",
            rule: "streams (valid from 4 sources incl. grammar streams with many small blocks of all three types and empty blocks; also invalid ones for clone/serde) x chunk/budget schedule x flat/ring; at the selected inter-call points the decoder is replaced by its clone / rmp-serde round trip / serde_json round trip and the run continues: per-call (status, consumed, written) trace, output and checksum verdict must equal the uninterrupted run. With TINFL_FLAG_STOP_ON_BLOCK_BOUNDARY: a stop exactly once after each non-final block of the reference trace (never after the final one), num_bits < 8 == 8*consumed - end_bit, bit_buf == last consumed byte >> (8-num_bits); the decoder is rebuilt with from_block_boundary_state and everything older than 32 KiB in the output buffer is overwritten with garbage. Non-trivial = a snapshot taken in a state other than Start/DoneForever, or a boundary with num_bits != 0 followed by a block with a back-reference; distinct by case fingerprint",
            assumptions: &["reference inflater supplies block ends (bit positions, output lengths) for the boundary protocol"],
            dbg: true,
            simd: false,
            exhaustive: None,
        }
    }
    fn cases(tier: Tier) -> u64 {
        tier.pick(400_000, 4_000_000)
    }
    fn strategy(_tier: Tier) -> BoxedStrategy<Case> {
        let ring = prop_oneof![3 => Just(None), 2 => (Just(15u8), any::<u32>(), any::<u64>()).prop_map(Some), 1 => (10u8..=16, any::<u32>(), any::<u64>()).prop_map(Some)];
        let input = prop_oneof![3 => valid_src(false).prop_map(|src| AnyInput { src, muts: vec![] }), 1 => any_input()];
        let core = (input, dec_sched(), ring, prop_oneof![Just(Snap::Clone), Just(Snap::Rmp), Just(Snap::Json)], 1u8..=4, 0u8..4).prop_map(|(input, sched, ring, snap, every, phase)| Case::Core { input, sched, ring, snap, every, phase });
        let bsrc = prop_oneof![4 => crate::gen::stream::stream(8, 30, 400, None, 3).prop_map(Src::Grammar), 2 => valid_src(false), 1 => valid_src(true)];
        let bring = prop_oneof![2 => Just(None), 1 => (15u8..=16, any::<u32>()).prop_map(Some)];
        let bnd = (bsrc, dec_sched(), any::<bool>(), any::<bool>(), bring).prop_map(|(src, sched, keep_zlib_fields, scrub, ring)| Case::Boundary { src, sched, keep_zlib_fields, scrub, ring });
        let wr = (valid_src(false), proptest::collection::vec(prop_oneof![0u32..=3, 1u32..=60, 1u32..=3000], 0..10), proptest::collection::vec(prop_oneof![1u32..=3, 1u32..=200, Just(1u32 << 16)], 1..4), 1u8..=3).prop_map(|(src, chunks, outs, every)| Case::Wrapper { src, chunks, outs, every });
        prop_oneof![4 => core, 4 => bnd, 1 => wr].boxed()
    }
    fn check(case: &Case, cx: &mut Ctx) -> Check {
        match case {
            Case::Core { input, sched, ring, snap, every, phase } => {
                let Some((data, zl)) = input.bytes(cx) else { return Ok(()) };
                let v = crate::oracle::inflate::inflate(&data, &crate::oracle::inflate::Opts { max_out: 2 << 20, ..crate::oracle::inflate::Opts::fmt(zl) });
                if v.verdict == crate::oracle::inflate::Verdict::TooBig {
                    return Ok(());
                }
                let mode = match ring {
                    None => BufMode::Flat { cap: v.out.len() + 300 },
                    Some((bits, start, fill)) => BufMode::Ring { bits: *bits, start: *start, fill_seed: *fill },
                };
                let flags = zflags(zl);
                let run = |snap: Option<Snap>, cx: &mut Ctx| -> Result<(DecRun, Trace, Option<u32>, bool), Violation> {
                    let mut d = DecompressorOxide::new();
                    let mut trace: Trace = Vec::new();
                    let mut i = 0u32;
                    let mut interesting = false;
                    let r = drive(&mut d, &data, &DriveOpts { flags, mode, sched, canary: false, max_calls: None, announce: true, flat_start: 0, probe_full_ring: false }, |d, info| {
                        trace.push((info.status, info.consumed, info.written));
                        if let Some(s) = snap {
                            if i % (*every as u32) == (*phase as u32) % (*every as u32) {
                                let st = d.verif_state();
                                if !matches!(state_name(st), "Start" | "DoneForever") {
                                    interesting = true;
                                }
                                cx.class(&format!("snapshot-in-state:{}", state_name(st)));
                                *d = match s {
                                    Snap::Clone => d.clone(),
                                    Snap::Rmp => {
                                        let b = rmp_serde::to_vec(&*d).map_err(|e| Violation::new("c19:serialise", format!("rmp: {e}")))?;
                                        rmp_serde::from_slice(&b).map_err(|e| Violation::new("c19:deserialise", format!("rmp: {e}")))?
                                    }
                                    Snap::Json => {
                                        let b = serde_json::to_vec(&*d).map_err(|e| Violation::new("c19:serialise", format!("json: {e}")))?;
                                        serde_json::from_slice(&b).map_err(|e| Violation::new("c19:deserialise", format!("json: {e}")))?
                                    }
                                };
                            }
                        }
                        i += 1;
                        Ok(())
                    })?;
                    let a = d.adler32();
                    Ok((r, trace, a, interesting))
                };
                let (r0, t0, a0, _) = run(None, cx)?;
                let (r1, t1, a1, interesting) = run(Some(*snap), cx)?;
                cx.evals(r0.calls + r1.calls);
                vensure!(t0 == t1 && r0.out == r1.out && r0.status == r1.status && r0.consumed == r1.consumed && a0 == a1, format!("c19:{snap:?}-changes-result"), "continuing from a {snap:?} snapshot: uninterrupted ({} bytes, {}, consumed {}, adler {a0:?}) vs restored ({} bytes, {}, consumed {}, adler {a1:?}); first differing call #{}", r0.out.len(), status_name(r0.status), r0.consumed, r1.out.len(), status_name(r1.status), r1.consumed, t0.iter().zip(t1.iter()).take_while(|(a, b)| a == b).count());
                if interesting {
                    cx.nontrivial();
                }
                cx.class(&format!("snap:{snap:?}"));
                Ok(())
            }
            Case::Boundary { src, sched, keep_zlib_fields, scrub, ring } => {
                let Some(t) = realize(src, cx) else { return Ok(()) };
                if !t.valid() {
                    return Ok(());
                }
                let data = &t.bytes;
                let plain = t.plain().to_vec();
                let blocks = &t.r.blocks;
                let hdr = if t.zlib { 0 } else { 0 };
                let _ = hdr;
                // raw streams: sometimes with "compute the Adler-32 anyway" (then the record's checksum
                // field is live and must survive a rebuild from the full record)
                let compute = !t.zlib && *keep_zlib_fields && sched.budgets.len() % 2 == 0;
                let flags = zflags(t.zlib) | TINFL_FLAG_STOP_ON_BLOCK_BOUNDARY | if compute { TINFL_FLAG_COMPUTE_ADLER32 } else { 0 };
                if compute {
                    cx.class("boundary:raw+compute-adler32");
                }
                let mut d = DecompressorOxide::new();
                let mut nb = 0usize;
                let mut interesting = false;
                // flat buffer, or a wrapping ring (then the ring itself is the preceding 32 KiB of output)
                let bmode = match ring {
                    None => BufMode::Flat { cap: plain.len() + 1 },
                    Some((bits, start)) => BufMode::Ring { bits: *bits, start: *start, fill_seed: 5 },
                };
                let r = drive(&mut d, data, &DriveOpts { flags, mode: bmode, sched, canary: false, max_calls: None, announce: true, flat_start: 0, probe_full_ring: false }, |d, info| {
                    if info.status != TINFLStatus::BlockBoundary {
                        if d.block_boundary_state().is_some() && !matches!(info.status, TINFLStatus::NeedsMoreInput | TINFLStatus::HasMoreOutput) {
                            // (state ReadBlockHeader can also be observed when input ran out exactly there; allowed)
                        }
                        return Ok(());
                    }
                    let bs = d.block_boundary_state().ok_or_else(|| Violation::new("c19:boundary-state-missing", "BlockBoundary reported but block_boundary_state() is None".to_string()))?;
                    if nb + 1 >= blocks.len() {
                        return Err(Violation::new("c19:boundary-after-final-block", format!("stop #{} reported but the stream has {} blocks", nb + 1, blocks.len())));
                    }
                    let b = &blocks[nb];
                    let end_bit = b.end_bit;
                    let want_consumed = end_bit.div_ceil(8);
                    let want_bits = (want_consumed * 8 - end_bit) as u8;
                    if info.total_in != want_consumed || info.total_out != b.out_start + b.out_len {
                        return Err(Violation::new("c19:boundary-position", format!("stop #{}: consumed {} produced {} but block {} ends at bit {} (byte {}) with {} bytes produced", nb + 1, info.total_in, info.total_out, nb, end_bit, want_consumed, b.out_start + b.out_len)));
                    }
                    if bs.num_bits >= 8 || bs.num_bits != want_bits {
                        return Err(Violation::new("c19:boundary-num_bits", format!("stop #{}: num_bits {} but {} bits of byte {} belong to the next block", nb + 1, bs.num_bits, want_bits, want_consumed - 1)));
                    }
                    if bs.num_bits > 0 {
                        let last = data[want_consumed - 1];
                        if bs.bit_buf != last >> (8 - bs.num_bits) {
                            return Err(Violation::new("c19:boundary-bit_buf", format!("stop #{}: bit_buf {:#x} but the top {} bits of the last consumed byte {:#x} are {:#x}", nb + 1, bs.bit_buf, bs.num_bits, last, last >> (8 - bs.num_bits))));
                        }
                        if blocks[nb + 1].n_match > 0 {
                            interesting = true;
                        }
                    }
                    // "Adler32 checksum of the data decompressed so far" (documented field)
                    if t.zlib || compute {
                        let want = crate::oracle::sums::adler32_ref(1, &plain[..info.total_out.min(plain.len())]);
                        if bs.check_adler32 != want {
                            return Err(Violation::new("c19:boundary-check_adler32", format!("stop #{}: record says check_adler32 = {:#010x}, the Adler-32 of the {} bytes produced so far is {want:#010x} ({} stream, {} rebuild(s) before)", nb + 1, bs.check_adler32, info.total_out, if t.zlib { "zlib" } else { "raw + COMPUTE_ADLER32" }, nb)));
                        }
                    }
                    cx.class(&format!("boundary:num_bits:{}", bs.num_bits));
                    // rebuild from the documented record only
                    let rec = if t.zlib || *keep_zlib_fields { bs.clone() } else { BlockBoundaryState { num_bits: bs.num_bits, bit_buf: bs.bit_buf, ..Default::default() } };
                    *d = DecompressorOxide::from_block_boundary_state(&rec);
                    if *scrub && info.flat {
                        // "a new output buffer holding only the last 32 KiB"
                        let keep_from = info.out_pos_after.saturating_sub(32768);
                        for x in info.buf[..keep_from].iter_mut() {
                            *x = 0xEE;
                        }
                    }
                    nb += 1;
                    Ok(())
                })?;
                vensure!(r.status == TINFLStatus::Done && r.consumed == t.enc_len(), "c19:boundary-resume-result", "resuming from boundary records: status {} consumed {} (want Done, {})", status_name(r.status), r.consumed, t.enc_len());
                vensure!(r.out == plain, "c19:boundary-resume-output", "output after resuming from boundary records differs at byte {}", r.out.iter().zip(plain.iter()).take_while(|(a, b)| a == b).count());
                vensure!(nb + 1 == blocks.len(), "c19:boundary-count", "{} stops reported for a stream of {} blocks", nb, blocks.len());
                cx.evals(r.calls);
                cx.class(&format!("boundary:blocks:{}", match blocks.len() { 1 => "1", 2..=3 => "2-3", _ => "4+" }));
                if interesting {
                    cx.nontrivial();
                }
                Ok(())
            }
            Case::Wrapper { src, chunks, outs, every } => {
                let Some(t) = realize(src, cx) else { return Ok(()) };
                if !t.valid() {
                    return Ok(());
                }
                let data = &t.bytes;
                let run = |clone_every: Option<u8>| -> Result<(Vec<u8>, Vec<(usize, usize, Result<miniz_oxide::MZStatus, miniz_oxide::MZError>)>), Violation> {
                    let mut st = InflateState::new_boxed(fmt_of(t.zlib));
                    let mut pos = 0usize;
                    let mut out = Vec::new();
                    let mut tr = Vec::new();
                    let mut i = 0usize;
                    loop {
                        let take = if i < chunks.len() { (chunks[i] as usize).min(data.len() - pos) } else { data.len() - pos };
                        let osz = outs[i % outs.len()].max(1) as usize;
                        let mut ob = vec![0u8; osz];
                        let res = guard(|| inflate(&mut st, &data[pos..pos + take], &mut ob, MZFlush::None)).map_err(|pm| Violation::new(panic_sig("inflate", &pm), format!("panic: {pm}")))?;
                        pos += res.bytes_consumed;
                        out.extend_from_slice(&ob[..res.bytes_written]);
                        tr.push((res.bytes_consumed, res.bytes_written, res.status));
                        i += 1;
                        if let Some(e) = clone_every {
                            if i % e as usize == 0 {
                                st = Box::new((*st).clone());
                            }
                        }
                        let starved_but_more = res.status == Err(miniz_oxide::MZError::Buf) && take == 0 && pos < data.len() && i <= chunks.len();
                        if (res.status != Ok(miniz_oxide::MZStatus::Ok) && !starved_but_more) || i > data.len() * 2 + plain_len_bound(&t) + 64 {
                            break;
                        }
                    }
                    Ok((out, tr))
                };
                let a = run(None)?;
                let b = run(Some(*every))?;
                vensure!(a == b, "c19:inflate-state-clone-changes-result", "InflateState::clone between calls changed the result ({} vs {} bytes)", a.0.len(), b.0.len());
                vensure!(a.0 == t.plain(), "c19:wrapper-output", "wrapper output differs from plaintext");
                cx.evals((a.1.len() + b.1.len()) as u64);
                if a.1.len() >= 3 {
                    cx.nontrivial();
                }
                cx.class("wrapper-clone");
                Ok(())
            }
        }
    }
}

fn plain_len_bound(t: &Truth) -> usize {
    t.plain().len()
}
