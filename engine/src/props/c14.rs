//! C14: streaming deflate obeys its status protocol and always makes progress.
//! Oracle = a relation over call histories that encodes only the property's own clauses.

use crate::gen::config::{config, Config, Ctor};
use crate::gen::data::{recipe, Recipe, Seg};
use crate::oracle::inflate::{inflate as ref_inflate, Opts, Verdict};
use crate::runner::*;
use crate::sut::dec::mzflush;
use crate::{vensure, vfail};
use miniz_oxide::deflate::core::CompressorOxide;
use miniz_oxide::deflate::stream::deflate;
use miniz_oxide::{MZError, MZFlush, MZStatus, StreamResult};
use proptest::prelude::*;
use serde::{Deserialize, Serialize};

#[derive(Clone, Copy, Debug, Serialize, Deserialize, PartialEq, Eq)]
pub struct Call {
    /// input bytes offered (clamped to what is left); u32::MAX = rest
    pub take: u32,
    pub out: u32,
    /// MZFlush: 0 None, 1 Partial, 2 Sync, 3 Full, 4 Finish
    pub flush: u8,
}

#[derive(Clone, Debug, Serialize, Deserialize)]
pub enum Case {
    /// exhaustive DFS below `prefix` to total depth `depth` over the fixed alphabet
    Dfs { root: u16, prefix: Vec<u16>, depth: u8 },
    Random { data: Recipe, cfg: Config, calls: Vec<Call>, finish_out: u32 },
}

pub struct P;

const TAKES: [u32; 3] = [0, 1, u32::MAX];
const OUTS: [u32; 4] = [0, 1, 5, 1 << 17];
const FLUSHES: [u8; 4] = [0, 2, 3, 4];

fn letter(i: u16) -> Call {
    let i = i as usize;
    Call { take: TAKES[i % 3], out: OUTS[(i / 3) % 4], flush: FLUSHES[(i / 12) % 4] }
}
const NLETTERS: u16 = 48;

fn roots() -> Vec<(Recipe, Config)> {
    let datas = vec![
        Recipe { segs: vec![], twice: false },
        Recipe::raw(b"a"),
        Recipe::raw(b"abcabcabcabcabcabc-abcabc"),
        Recipe { segs: vec![Seg::Text { n: 300, seed: 3 }], twice: false },
        Recipe { segs: vec![Seg::Random { n: 700, seed: 9 }], twice: true },
        Recipe { segs: vec![Seg::Run { byte: 7, n: 5000 }], twice: false },
    ];
    let cfgs = vec![
        Config { ctor: Ctor::Flags, level: 0, strategy: 0, zlib: true, wbits: 15, hand: 0 },
        Config { ctor: Ctor::Flags, level: 1, strategy: 0, zlib: false, wbits: 15, hand: 0 },
        Config { ctor: Ctor::Flags, level: 6, strategy: 0, zlib: true, wbits: 15, hand: 0 },
        Config { ctor: Ctor::Flags, level: 9, strategy: 1, zlib: false, wbits: 15, hand: 0 },
        Config { ctor: Ctor::Flags, level: 2, strategy: 4, zlib: true, wbits: 15, hand: 0 },
        Config { ctor: Ctor::Default, level: 0, strategy: 0, zlib: true, wbits: 15, hand: 0 },
    ];
    let mut v = Vec::new();
    for d in &datas {
        for c in &cfgs {
            v.push((d.clone(), *c));
        }
    }
    // large roots (a block outgrows every small output buffer): explored to depth 2 only
    v.push((Recipe { segs: vec![Seg::Random { n: 90_000, seed: 5 }], twice: false }, cfgs[1]));
    v.push((Recipe { segs: vec![Seg::Random { n: 90_000, seed: 5 }], twice: false }, cfgs[0]));
    v.push((Recipe { segs: vec![Seg::Text { n: 70_000, seed: 11 }], twice: false }, cfgs[2]));
    v
}
const N_SMALL_ROOTS: u16 = 36;

#[derive(Clone)]
struct Model {
    pos: usize,
    out: Vec<u8>,
    finishing: bool,
    ended: bool,
    dead: bool,
    finish_calls: u64,
    refused: bool,
    suspended: bool,
    /// end of the input as fixed by the Finish calls so far: once Finish has been requested the
    /// caller may only re-offer what that call left unconsumed (zlib's rule: "no more input data");
    /// a later Finish call that offers less moves the end further down
    limit: Option<usize>,
}

/// apply one call to (compressor, model); check every clause
fn step(c: &mut CompressorOxide, m: &mut Model, x: &[u8], zl: bool, call: Call, probe_empty: bool, cx: &mut Ctx) -> Check {
    let end = m.limit.unwrap_or(x.len());
    let take = (call.take as usize).min(end - m.pos);
    let chunk = &x[m.pos..m.pos + take];
    let osz = call.out as usize;
    let mut obuf = vec![0u8; osz];
    let flush = mzflush(call.flush);
    let before = if osz == 0 && probe_empty { Some(c.clone()) } else { None };
    let (adler_b, status_b) = (c.adler32(), c.prev_return_status());
    let res: StreamResult = guard(|| deflate(c, chunk, &mut obuf, flush)).map_err(|pm| Violation::new(panic_sig("deflate", &pm), format!("deflate() panicked: {pm} (call {call:?})")))?;
    vensure!(res.bytes_consumed <= take && res.bytes_written <= osz, "c14:counts", "consumed {}/{take} written {}/{osz}", res.bytes_consumed, res.bytes_written);
    if osz == 0 {
        m.refused = true;
        vensure!(res.status == Err(MZError::Buf) && res.bytes_consumed == 0 && res.bytes_written == 0, "c14:empty-output-not-refused", "empty output buffer: {:?}", res);
        vensure!(c.adler32() == adler_b && c.prev_return_status() == status_b, "c14:empty-output-side-effect", "refused call changed observable state");
        if let Some(mut b) = before {
            // behavioural equality with a clone that never saw the call: finish both
            let mut a = c.clone();
            let rest = &x[m.pos..end];
            let mut oa = vec![0u8; rest.len() + rest.len() / 4 + 4096];
            let mut ob = oa.clone();
            let fl = if m.dead || m.ended || !m.finishing { MZFlush::Finish } else { MZFlush::Finish };
            let ra = deflate(&mut a, rest, &mut oa, fl);
            let rb = deflate(&mut b, rest, &mut ob, fl);
            vensure!(ra == rb && oa[..ra.bytes_written] == ob[..rb.bytes_written], "c14:empty-output-side-effect", "after a refused empty-output call the compressor continues differently from a clone that never saw it: {ra:?} vs {rb:?}");
            cx.evals(2);
        }
        return Ok(());
    }
    if m.ended {
        if call.flush == 4 {
            vensure!(res.status == Ok(MZStatus::StreamEnd) && res.bytes_consumed == 0 && res.bytes_written == 0, "c14:after-end-finish", "Finish after stream end: {res:?}");
        } else {
            vensure!(res.status == Err(MZError::Buf) && res.bytes_consumed == 0 && res.bytes_written == 0, "c14:after-end-other", "non-Finish call after stream end: {res:?}");
        }
        return Ok(());
    }
    if m.dead {
        vensure!(res.status.is_err() && res.bytes_written == 0, "c14:after-misuse", "call after a reported misuse: {res:?}");
        return Ok(());
    }
    if m.finishing && call.flush != 4 {
        vensure!(res.status.is_err() && res.bytes_written == 0 && res.bytes_consumed == 0, "c14:non-finish-after-finish-not-refused", "non-Finish call after an unfinished Finish: {res:?}");
        m.dead = true;
        m.refused = true;
        return Ok(());
    }
    m.out.extend_from_slice(&obuf[..res.bytes_written]);
    m.pos += res.bytes_consumed;
    match res.status {
        Ok(MZStatus::StreamEnd) => {
            vensure!(call.flush == 4, "c14:stream-end-without-finish", "StreamEnd on flush {}", call.flush);
            vensure!(res.bytes_consumed == take, "c14:stream-end-input-left", "StreamEnd with {} of {take} offered bytes consumed", res.bytes_consumed);
            let r = ref_inflate(&m.out, &Opts::fmt(zl));
            vensure!(r.verdict == Verdict::Valid && r.consumed == m.out.len(), "c14:stream-end-incomplete-stream", "StreamEnd but the {} bytes delivered are not one complete stream: {:?}", m.out.len(), r.verdict);
            vensure!(r.out[..] == x[..m.pos], "c14:stream-end-wrong-data", "stream decodes to {} bytes, {} were consumed", r.out.len(), m.pos);
            m.ended = true;
        }
        Ok(MZStatus::Ok) => {}
        Err(MZError::Buf) if take == 0 && call.flush == 0 && res.bytes_written == 0 => {}
        other => vfail!("c14:unexpected-status", "call {call:?} (offered {take}) returned {other:?}"),
    }
    if take > 0 || call.flush != 0 {
        vensure!(res.bytes_consumed + res.bytes_written > 0 || m.ended, "c14:no-progress", "call with output space {osz}, input {take}, flush {} made no progress: {res:?}", call.flush);
    }
    if call.flush == 4 {
        m.finishing = true;
        // every Finish call declares "the input ends with what I offer now" (never more than an
        // earlier Finish call offered: `take` is already clamped by the previous limit)
        m.limit = Some(m.pos - res.bytes_consumed + take);
        m.finish_calls += 1;
        vensure!(m.ended || res.bytes_written == osz, "c14:finish-returned-early", "Finish returned {:?} with only {} of {osz} output bytes used", res.status, res.bytes_written);
    }
    if res.bytes_written == osz && !m.ended {
        m.suspended = true;
    }
    Ok(())
}

fn dfs(c: &CompressorOxide, m: &Model, x: &[u8], zl: bool, depth: u8, cx: &mut Ctx, path: &mut Vec<u16>) -> Check {
    if depth == 0 {
        return Ok(());
    }
    for l in 0..NLETTERS {
        let mut c2 = c.clone();
        let mut m2 = m.clone();
        path.push(l);
        let probe = x.len() <= 6000;
        step(&mut c2, &mut m2, x, zl, letter(l), probe, cx).map_err(|mut v| {
            v.msg = format!("{} [DFS path {:?}]", v.msg, path.iter().map(|&i| letter(i)).collect::<Vec<_>>());
            v
        })?;
        cx.evals(1);
        if (m2.refused || m2.suspended) && m2.finish_calls >= 2 {
            cx.sub_nontrivial(crate::oracle::sums::fnv64(format!("{path:?}{}", x.len()).as_bytes()));
        }
        dfs(&c2, &m2, x, zl, depth - 1, cx, path)?;
        path.pop();
    }
    Ok(())
}

impl Prop for P {
    const ID: &'static str = "C14";
    type Case = Case;
    fn meta() -> Meta {
        Meta {
            level: "exploration",
            rule: "call histories on stream::deflate: (1) exhaustive DFS to depth 3 (quick) / 4 (thorough, on the small roots) over a 48-letter alphabet (input 0/1/rest x output 0/1/5/128K x flush None/Sync/Full/Finish) from 36 roots (6 inputs from empty to 5 KB x 6 configurations), depth 2 from 3 large roots (70-90 KB, where a block outgrows the output buffer), cloning the compressor at each node; (2) random histories of up to 40 calls with arbitrary sizes and all five flush values followed by a Finish loop. After every call the protocol relation is evaluated (counts; empty output refused without side effects, incl. behavioural comparison against a clone; progress; Finish fills the buffer or ends; StreamEnd only after Finish and only with a complete stream (reference inflater); stable afterwards; non-Finish after Finish refused). Non-trivial = a history with a refused or output-full call before the end and a Finish that needed >= 2 calls; distinct by path / case fingerprint",
            assumptions: &["reference inflater (self-checked)", "only clauses stated by the property are asserted; e.g. Err(Buf) for a None call with no input and nothing to do is allowed"],
            dbg: true,
            simd: false,
            exhaustive: Some("all call sequences of length <= 3 over the 48-letter alphabet from each of the 36 small roots (length <= 2 from the 3 large roots)"),
        }
    }
    fn cases(tier: Tier) -> u64 {
        tier.pick(60_000, 600_000)
    }
    fn fixed_cases(tier: Tier) -> Vec<Case> {
        let mut v = Vec::new();
        let nroots = roots().len() as u16;
        for root in 0..nroots {
            for l in 0..NLETTERS {
                v.push(Case::Dfs { root, prefix: vec![l], depth: if root < N_SMALL_ROOTS { 3 } else { 2 } });
            }
        }
        if tier == Tier::Thorough {
            // depth 4 on the roots with small inputs (first 4 data x 6 configs)
            for root in 0..24u16 {
                for l in 0..NLETTERS {
                    for l2 in 0..NLETTERS {
                        v.push(Case::Dfs { root, prefix: vec![l, l2], depth: 4 });
                    }
                }
            }
        }
        v
    }
    fn strategy(_tier: Tier) -> BoxedStrategy<Case> {
        let call = (prop_oneof![2 => Just(0u32), 3 => 1u32..=40, 2 => 1u32..=5000, 2 => Just(u32::MAX)], prop_oneof![1 => Just(0u32), 3 => 1u32..=8, 2 => 1u32..=600, 1 => Just(1u32 << 17)], prop_oneof![5 => Just(0u8), 1 => Just(1u8), 2 => Just(2u8), 2 => Just(3u8), 2 => Just(4u8)]).prop_map(|(take, out, flush)| Call { take, out, flush });
        let data = prop_oneof![6 => recipe(800, 3), 2 => recipe(20_000, 3), 1 => recipe(120_000, 2)];
        (data, config(), proptest::collection::vec(call, 0..40), prop_oneof![1u32..=6, 1u32..=300, Just(1u32 << 17)]).prop_map(|(data, cfg, calls, finish_out)| Case::Random { data, cfg, calls, finish_out }).boxed()
    }
    fn check(case: &Case, cx: &mut Ctx) -> Check {
        match case {
            Case::Dfs { root, prefix, depth } => {
                let rs = roots();
                let (data, cfg) = &rs[*root as usize % rs.len()];
                let x = data.expand();
                let zl = cfg.is_zlib();
                let mut c = cfg.make();
                let mut m = Model { pos: 0, out: vec![], finishing: false, ended: false, dead: false, finish_calls: 0, refused: false, suspended: false, limit: None };
                let mut path = Vec::new();
                for &l in prefix {
                    path.push(l);
                    step(&mut c, &mut m, &x, zl, letter(l), x.len() <= 6000, cx)?;
                    cx.evals(1);
                }
                cx.nontrivial();
                dfs(&c, &m, &x, zl, depth.saturating_sub(prefix.len() as u8), cx, &mut path)
            }
            Case::Random { data, cfg, calls, finish_out } => {
                let x = data.expand();
                let zl = cfg.is_zlib();
                let mut c = cfg.make();
                let mut m = Model { pos: 0, out: vec![], finishing: false, ended: false, dead: false, finish_calls: 0, refused: false, suspended: false, limit: None };
                for call in calls {
                    step(&mut c, &mut m, &x, zl, *call, x.len() <= 3000, cx)?;
                    cx.evals(1);
                }
                if !m.dead && !m.ended {
                    // the Finish loop must terminate within ceil(bound/out) + c calls
                    let osz = (*finish_out).max(1);
                    let bound = ((x.len() + x.len() / 8 + 2048) as u64).div_ceil(osz as u64) + 8;
                    let mut n = 0u64;
                    while !m.ended {
                        step(&mut c, &mut m, &x, zl, Call { take: u32::MAX, out: osz, flush: 4 }, false, cx)?;
                        n += 1;
                        vensure!(n <= bound, "c14:finish-loop-not-terminating", "Finish repeated {n} times with {osz}-byte buffers without reaching stream end (input {} bytes)", x.len());
                    }
                    vensure!(m.pos == m.limit.unwrap_or(x.len()), "c14:finish-loop-input-left", "stream ended with {} of {} bytes consumed", m.pos, m.limit.unwrap_or(x.len()));
                    // and stays ended
                    step(&mut c, &mut m, &x, zl, Call { take: 0, out: 8, flush: 4 }, false, cx)?;
                    step(&mut c, &mut m, &x, zl, Call { take: 0, out: 8, flush: 0 }, false, cx)?;
                }
                if (m.refused || m.suspended) && m.finish_calls >= 2 {
                    cx.nontrivial();
                }
                cx.class(if m.dead { "history:misuse-reported" } else { "history:ended" });
                if m.suspended {
                    cx.class("history:output-full-suspension");
                }
                if m.refused {
                    cx.class("history:refused-call");
                }
                Ok(())
            }
        }
    }
}
