//! C04: the decoder never reports success on an invalid stream; proper prefixes of valid streams
//! are never rejected as corrupt.

use super::common::*;
use crate::oracle::inflate::{inflate as ref_inflate, Opts, Verdict, WindowMode};
use crate::runner::*;
use crate::sut::dec::*;
use crate::sut::*;
use crate::{vensure, vfail};
use miniz_oxide::inflate::stream::InflateState;
use miniz_oxide::inflate::{decompress_to_vec, decompress_to_vec_zlib};
use miniz_oxide::{MZFlush, MZStatus};
use proptest::prelude::*;
use serde::{Deserialize, Serialize};

#[derive(Clone, Debug, Serialize, Deserialize)]
pub enum Case {
    /// arbitrary input: soundness of every completion report
    Any { input: AnyInput, sched: DecSched, ring_bits: u8, ring_start: u32, fill_seed: u64 },
    /// every `step`-th proper prefix of a valid stream
    Prefixes { src: Src, step: u32, phase: u32 },
}

pub struct P;

fn ring_bits_strategy() -> BoxedStrategy<u8> {
    prop_oneof![4 => Just(15u8), 2 => Just(16u8), 1 => Just(17u8), 2 => 8u8..=14, 1 => 0u8..=7].boxed()
}

impl Prop for P {
    const ID: &'static str = "C04";
    type Case = Case;
    fn meta() -> Meta {
        Meta {
            level: "exploration",
            rule: "inputs: grammar streams carrying exactly one targeted spec violation (27 directive kinds), 1-3 mutations of valid streams from 4 sources, random bytes (bare and behind a plausible header), each decoded one-shot and under generated chunk/budget schedules in flat and ring mode (ring oracle = ring semantics with the actual initial buffer contents), plus every proper prefix of valid streams with and without more-input announced (core decoder flat/ring, vector functions, and the slice-iterator helper with empty slices between the parts). Non-trivial = the input got past its first two bytes and the reference inflater read at least one complete block header before its verdict; distinct by input bytes + schedule fingerprint",
            assumptions: &["reference inflater is the arbiter of validity (self-checked against the grammar and system zlib)", "only the property's own claims are asserted: completion => valid+equal output+equal consumed; prefix => NeedsMoreInput/HasMoreOutput/FailedCannotMakeProgress. 'reference says invalid but crate needs more input' is allowed"],
            dbg: false,
            simd: false,
            exhaustive: None,
        }
    }
    fn cases(tier: Tier) -> u64 {
        tier.pick(200_000, 500_000)
    }
    fn strategy(tier: Tier) -> BoxedStrategy<Case> {
        let anyc = (any_input(), dec_sched(), ring_bits_strategy(), any::<u32>(), prop_oneof![Just(0u64), any::<u64>()]).prop_map(|(input, sched, ring_bits, ring_start, fill_seed)| Case::Any { input, sched, ring_bits, ring_start, fill_seed });
        let pre = (valid_src(false), prop_oneof![4 => Just(1u32), 1 => 2u32..=9], any::<u32>()).prop_map(|(src, step, phase)| Case::Prefixes { src, step, phase });
        let w = tier.pick(2, 3);
        prop_oneof![30 => anyc, w => pre].boxed()
    }
    fn self_check(cx: &mut Ctx) -> Result<(), String> {
        let s = crate::oracle::selfcheck::run(cx.tier.pick(400, 4000), cx.tier.pick(800, 8000))?;
        cx.notes.insert("oracle_self_check".into(), serde_json::json!({"valid_streams": s.valid_streams, "directive_streams": s.directive_streams, "directives_applied": s.directives_applied, "zlib_crosschecks": s.zlib_crosschecks}));
        Ok(())
    }
    fn check(case: &Case, cx: &mut Ctx) -> Check {
        match case {
            Case::Any { input, sched, ring_bits, ring_start, fill_seed } => check_any(input, sched, *ring_bits, *ring_start, *fill_seed, cx),
            Case::Prefixes { src, step, phase } => check_prefixes(src, *step, *phase, cx),
        }
    }
}

fn check_any(input: &AnyInput, sched: &DecSched, ring_bits: u8, ring_start: u32, fill_seed: u64, cx: &mut Ctx) -> Check {
    let Some((data, zl)) = input.bytes(cx) else { return Ok(()) };
    if let Src::Grammar(rec) = &input.src {
        if let Some(d) = rec.directive {
            cx.class(&format!("directive:{:?}", d.kind));
        }
    }
    for m in &input.muts {
        cx.class(&format!("mutation:{}", format!("{m:?}").split(' ').next().unwrap_or("")));
    }
    let zf = zflags(zl);
    // reference verdicts
    let vf = ref_inflate(&data, &Opts { max_out: 8 << 20, ..Opts::fmt(zl) });
    if vf.verdict == Verdict::TooBig {
        cx.class("skipped:reference-output-cap");
        return Ok(());
    }
    cx.class(&format!("ref-flat:{}", match &vf.verdict { Verdict::Valid => "Valid".to_string(), Verdict::Invalid(r) => format!("Invalid:{r:?}"), Verdict::Incomplete => "Incomplete".into(), Verdict::TooBig => "TooBig".into() }));
    if data.len() > 2 && vf.bit_pos > 16 + 3 && (vf.blocks.len() > 1 || vf.blocks.first().map(|b| b.btype != 2 || !b.lit_lens.is_empty() || b.complete).unwrap_or(false)) {
        cx.nontrivial();
    }
    if vf.verdict == Verdict::Valid && !input.muts.is_empty() {
        cx.class("mutant-still-valid");
    }
    // zlib as second opinion on flat-mode accept/reject
    if let Some(z) = crate::oracle::zlibffi::z_inflate(&data, if zl { 15 } else { -15 }, 1 << 16, 16 << 20) {
        let ref_ok = vf.verdict == Verdict::Valid;
        if z.ok != ref_ok {
            cx.class("oracle_disagreement:zlib-vs-reference(excluded)");
            return Ok(());
        }
    }
    let cap = vf.out.len() + 1 + (fill_seed % 300) as usize;

    let sound = |what: &str, run: &DecRun, v: &crate::oracle::inflate::Inflated| -> Check {
        if run.status == TINFLStatus::Done {
            vensure!(v.verdict == Verdict::Valid, "c04:accepted-invalid", "{what}: decoder reported Done but the reference says {:?} (bit {}); input {} bytes, consumed {}, produced {}", v.verdict, v.bit_pos, 0, run.consumed, run.out.len());
            vensure!(run.out == v.out, "c04:done-wrong-output", "{what}: Done with output differing from the specification ({} vs {} bytes)", run.out.len(), v.out.len());
            vensure!(run.consumed == v.consumed, "c04:done-wrong-consumed", "{what}: Done with consumed {} but the stream is {} bytes", run.consumed, v.consumed);
        } else if v.verdict == Verdict::Valid {
            // not asserted here (that is C03's claim), but make it visible
        }
        Ok(())
    };

    // flat, one call
    let r1 = flat_oneshot(&data, zf, cap)?;
    sound("flat one-call", &r1, &vf)?;
    cx.class(&format!("crate-flat:{}", status_name(r1.status)));
    if r1.status == TINFLStatus::Failed {
        cx.class(&format!("fail-state:{}", state_name(r1.final_state)));
    }
    // flat, scheduled
    let mut d = DecompressorOxide::new();
    let r2 = drive(&mut d, &data, &DriveOpts { flags: zf, mode: BufMode::Flat { cap }, sched, canary: false, max_calls: None, announce: true, flat_start: 0, probe_full_ring: false }, plain_hook)?;
    sound("flat scheduled", &r2, &vf)?;
    if r2.status == TINFLStatus::Failed {
        cx.class(&format!("fail-state:{}", state_name(r2.final_state)));
    }
    // ring
    let bits = ring_bits.min(17);
    let init = ring_fill(bits, fill_seed);
    let start = ring_start as usize % init.len();
    let vr = ref_inflate(&data, &Opts { window: WindowMode::Ring { init: &init, start }, max_out: 8 << 20, ..Opts::fmt(zl) });
    if vr.verdict != Verdict::TooBig {
        let mut d = DecompressorOxide::new();
        let r3 = drive(&mut d, &data, &DriveOpts { flags: zf, mode: BufMode::Ring { bits, start: ring_start, fill_seed }, sched, canary: false, max_calls: None, announce: true, flat_start: 0, probe_full_ring: false }, plain_hook)?;
        sound(&format!("ring 2^{bits}"), &r3, &vr)?;
        if r3.status == TINFLStatus::Failed {
            cx.class(&format!("fail-state:{}", state_name(r3.final_state)));
        }
        if r3.status == TINFLStatus::Done && vf.verdict != Verdict::Valid {
            cx.class("ring-accepts-what-flat-rejects(pre-stream reference, allowed)");
        }
    }
    // a proper prefix of a valid stream is never rejected: the stream minus its last byte, more input
    // announced on every call, chunked as the schedule says (flat, and in the ring just used)
    for (what, v, ring) in [("flat", &vf, false), ("ring", &vr, true)] {
        if v.verdict != Verdict::Valid || v.consumed < 1 {
            continue;
        }
        let pre = &data[..v.consumed - 1];
        let mut buf = if ring { init.clone() } else { vec![0u8; vf.out.len() + 1] };
        let mask = buf.len() - 1;
        let mut out_pos = if ring { start } else { 0 };
        let extra = if ring { 0 } else { TINFL_FLAG_USING_NON_WRAPPING_OUTPUT_BUF };
        let mut d = DecompressorOxide::new();
        let (mut ipos, mut ci, mut calls) = (0usize, 0usize, 0usize);
        loop {
            let take = if ci < sched.chunks.len() { (sched.chunks[ci] as usize).min(pre.len() - ipos) } else { pre.len() - ipos };
            let (st, c, w) = guard(|| decompress(&mut d, &pre[ipos..ipos + take], &mut buf, out_pos, zf | extra | TINFL_FLAG_HAS_MORE_INPUT)).map_err(|pm| Violation::new(panic_sig("decompress", &pm), format!("panic on a proper prefix: {pm}")))?;
            ipos += c;
            out_pos = if ring { (out_pos + w) & mask } else { out_pos + w };
            calls += 1;
            match st {
                TINFLStatus::NeedsMoreInput => {
                    ci += 1;
                    if ipos == pre.len() && ci >= sched.chunks.len() {
                        break;
                    }
                }
                TINFLStatus::HasMoreOutput if ring => {}
                other => vfail!("c04:prefix-rejected", "{what}: the valid stream minus its last byte ({} of {} bytes offered so far, more input announced) got status {} (want NeedsMoreInput{})", ipos, pre.len(), status_name(other), if ring { " or HasMoreOutput at the end of the ring" } else { "" }),
            }
            if calls > pre.len() + v.out.len() + sched.chunks.len() + 64 {
                break;
            }
        }
        cx.evals(1);
        cx.class("valid-minus-last-byte:not-rejected");
    }
    // zlib input with the checksum comparison switched off: everything but the trailer comparison
    // still applies (header rules, deflate validity)
    if zl {
        let vi = ref_inflate(&data, &Opts { ignore_adler: true, max_out: 8 << 20, ..Opts::fmt(true) });
        if vi.verdict != Verdict::TooBig {
            let r = flat_oneshot(&data, zf | TINFL_FLAG_IGNORE_ADLER32, cap)?;
            sound("flat one-call, IGNORE_ADLER32", &r, &vi)?;
            let mut d = DecompressorOxide::new();
            let r = drive(&mut d, &data, &DriveOpts { flags: zf | TINFL_FLAG_IGNORE_ADLER32, mode: BufMode::Flat { cap }, sched, canary: false, max_calls: None, announce: true, flat_start: 0, probe_full_ring: false }, plain_hook)?;
            sound("flat scheduled, IGNORE_ADLER32", &r, &vi)?;
            cx.evals(2);
        }
    }
    cx.evals(2);
    // vector function
    let v = guard(|| if zl { decompress_to_vec_zlib(&data) } else { decompress_to_vec(&data) }).map_err(|pm| Violation::new(panic_sig("to_vec", &pm), format!("decompress_to_vec panicked: {pm}")))?;
    if let Ok(o) = v {
        vensure!(vf.verdict == Verdict::Valid, "c04:accepted-invalid", "decompress_to_vec: Ok({} bytes) but the reference says {:?}", o.len(), vf.verdict);
        vensure!(o == vf.out, "c04:done-wrong-output", "decompress_to_vec: Ok with wrong output");
    }
    // inflate() wrapper (window zero-initialised => ring semantics with a zero ring, start 0)
    {
        let zero = vec![0u8; 32768];
        let vz = ref_inflate(&data, &Opts { window: WindowMode::Ring { init: &zero, start: 0 }, max_out: 8 << 20, ..Opts::fmt(zl) });
        if vz.verdict != Verdict::TooBig {
            let mut st = InflateState::new_boxed(fmt_of(zl));
            let mut ch = sched.chunks.clone();
            if ch.is_empty() || ch[0] as usize >= data.len() {
                ch.insert(0, (data.len() / 2) as u32);
            }
            let r = inflate_loop_driver(&mut st, &data, &ch, &[257, 3, 70000], MZFlush::None, fill_seed & 1 == 0)?;
            if r.status == Ok(MZStatus::StreamEnd) {
                vensure!(vz.verdict == Verdict::Valid, "c04:accepted-invalid", "inflate(): StreamEnd but the reference (zeroed 32 KiB ring) says {:?}", vz.verdict);
                vensure!(r.out == vz.out && r.consumed == vz.consumed, "c04:done-wrong-output", "inflate(): StreamEnd with out {} consumed {} vs reference {} / {}", r.out.len(), r.consumed, vz.out.len(), vz.consumed);
            }
        }
    }
    cx.evals(2);
    Ok(())
}

fn check_prefixes(src: &Src, step: u32, phase: u32, cx: &mut Ctx) -> Check {
    let Some(t) = realize(src, cx) else { return Ok(()) };
    if !t.valid() {
        cx.class("prefix:source-not-valid");
        return Ok(());
    }
    let n = t.plain().len();
    let data = &t.bytes;
    if data.len() > 6000 {
        cx.class("prefix:skipped-long");
        return Ok(());
    }
    cx.nontrivial();
    let zf = zflags(t.zlib);
    let step = step.max(1) as usize;
    let mut k = if step == 1 { 0 } else { phase as usize % step };
    while k < data.len() {
        let pre = &data[..k];
        // more input announced
        let mut d = DecompressorOxide::new();
        let mut buf = vec![0u8; n + 1];
        let (st, c, w) = guard(|| decompress(&mut d, pre, &mut buf, 0, zf | TINFL_FLAG_HAS_MORE_INPUT | TINFL_FLAG_USING_NON_WRAPPING_OUTPUT_BUF)).map_err(|pm| Violation::new(panic_sig("decompress", &pm), format!("panic on prefix {k}: {pm}")))?;
        vensure!(st == TINFLStatus::NeedsMoreInput, "c04:prefix-announced", "prefix of {k}/{} bytes with more input announced and spare output: status {} (want NeedsMoreInput)", data.len(), status_name(st));
        vensure!(c == k && buf[..w] == t.plain()[..w.min(n)] && w <= n, "c04:prefix-output", "prefix {k}: consumed {c}, produced {w} bytes that are not a plaintext prefix");
        // exactly-full window: HasMoreOutput is allowed only if the window really is full
        let mut d = DecompressorOxide::new();
        let mut buf = vec![0u8; n];
        let (st, _c, w) = guard(|| decompress(&mut d, pre, &mut buf, 0, zf | TINFL_FLAG_HAS_MORE_INPUT | TINFL_FLAG_USING_NON_WRAPPING_OUTPUT_BUF)).map_err(|pm| Violation::new(panic_sig("decompress", &pm), format!("panic on prefix {k}: {pm}")))?;
        vensure!(st == TINFLStatus::NeedsMoreInput || (st == TINFLStatus::HasMoreOutput && w == n), "c04:prefix-announced-full", "prefix {k}/{} with an exactly-sized buffer: status {} with {w}/{n} written", data.len(), status_name(st));
        // no more input announced
        let mut d = DecompressorOxide::new();
        let mut buf = vec![0u8; n + 1];
        let (st, _c, w) = guard(|| decompress(&mut d, pre, &mut buf, 0, zf | TINFL_FLAG_USING_NON_WRAPPING_OUTPUT_BUF)).map_err(|pm| Violation::new(panic_sig("decompress", &pm), format!("panic on prefix {k}: {pm}")))?;
        vensure!(st == TINFLStatus::FailedCannotMakeProgress, "c04:prefix-unannounced", "prefix of {k}/{} bytes, no more input announced: status {} (want FailedCannotMakeProgress)", data.len(), status_name(st));
        vensure!(buf[..w] == t.plain()[..w.min(n)] && w <= n, "c04:prefix-output", "prefix {k}: produced bytes are not a plaintext prefix");
        // ring mode, announced
        let mut d = DecompressorOxide::new();
        let mut ring = vec![0u8; 32768];
        let (st, _c, w) = guard(|| decompress(&mut d, pre, &mut ring, 0, zf | TINFL_FLAG_HAS_MORE_INPUT)).map_err(|pm| Violation::new(panic_sig("decompress", &pm), format!("panic on prefix {k}: {pm}")))?;
        vensure!(st == TINFLStatus::NeedsMoreInput || (st == TINFLStatus::HasMoreOutput && w == 32768), "c04:prefix-ring", "prefix {k}/{} in a 32 KiB ring: status {}", data.len(), status_name(st));
        // vector function: "cannot make progress" (no more input can be announced through it)
        if k % 7 == 0 {
            let v = guard(|| if t.zlib { decompress_to_vec_zlib(pre) } else { decompress_to_vec(pre) }).map_err(|pm| Violation::new(panic_sig("to_vec", &pm), format!("panic on prefix {k}: {pm}")))?;
            match v {
                Ok(_) => vfail!("c04:prefix-accepted", "decompress_to_vec accepted a proper prefix ({k}/{})", data.len()),
                Err(e) => vensure!(e.status == TINFLStatus::FailedCannotMakeProgress, "c04:prefix-vec-status", "decompress_to_vec on prefix {k}: {:?}", e.status),
            }
        }
        // slice-iterator helper: the prefix followed by further slices (one of them empty) is "more
        // input announced"; the prefix as the last non-empty slice is not
        if k % 5 == phase as usize % 5 {
            let rest = &data[k..];
            let mid = rest.len() / 2;
            let it = |sl: &[&[u8]]| -> Result<(Result<usize, TINFLStatus>, Vec<u8>), Violation> {
                let mut out = vec![0u8; n + 1];
                let r = guard(|| miniz_oxide::inflate::decompress_slice_iter_to_slice(&mut out, sl.iter().copied(), t.zlib, false)).map_err(|pm| Violation::new(panic_sig("slice_iter", &pm), format!("panic on prefix {k}: {pm}")))?;
                Ok((r, out))
            };
            for (what, sl) in [("[prefix, empty, rest]", vec![pre, &[][..], rest]), ("[prefix, rest/2, empty, rest/2]", vec![pre, &rest[..mid], &[][..], &rest[mid..]]), ("[empty, prefix, empty, empty, rest]", vec![&[][..], pre, &[][..], &[][..], rest])] {
                let (r, out) = it(&sl)?;
                vensure!(r == Ok(n) && out[..n] == t.plain()[..], "c04:prefix-slice-iter", "decompress_slice_iter_to_slice over {what} with a {k}/{} byte prefix: {:?} (want Ok({n}))", data.len(), r);
            }
            for (what, sl) in [("[prefix]", vec![pre]), ("[prefix, empty]", vec![pre, &[][..]]), ("[prefix/2, empty, prefix/2]", vec![&pre[..k / 2], &[][..], &pre[k / 2..]])] {
                let (r, _) = it(&sl)?;
                vensure!(r == Err(TINFLStatus::FailedCannotMakeProgress), "c04:prefix-slice-iter-unannounced", "decompress_slice_iter_to_slice over {what} with a {k}/{} byte prefix and nothing after it: {:?} (want FailedCannotMakeProgress)", data.len(), r);
            }
            cx.evals(6);
            cx.class("prefix:slice-iter-with-empty-slices");
        }
        cx.evals(4);
        cx.sub_nontrivial(crate::oracle::sums::fnv64(pre) ^ 0x9e37);
        k += step;
    }
    cx.class("prefix:streams");
    Ok(())
}
