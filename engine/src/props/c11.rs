//! C11: the window size declared in the zlib header bounds every match distance.

use crate::gen::config::{schedule, strategy_of, Schedule};
use crate::gen::data::{seg, size, Recipe, Seg};
use crate::oracle::inflate::{inflate as ref_inflate, Opts, Rule, Verdict};
use crate::oracle::zlibffi;
use crate::runner::*;
use crate::sut::comp::{drive_compress, Driver};
use crate::sut::dec::*;
use crate::sut::*;
use crate::vensure;
use miniz_oxide::deflate::core::CompressorOxide;
use miniz_oxide::DataFormat;
use proptest::prelude::*;
use serde::{Deserialize, Serialize};

#[derive(Clone, Debug, Serialize, Deserialize)]
pub struct Case {
    pub data: Recipe,
    pub level: u8,
    pub strategy: u8,
    pub wbits: u8,
    pub sched: Schedule,
    /// DataFormat::ZLibIgnoreChecksum instead of Zlib ("behaves the same as Zlib for compression")
    #[serde(default)]
    pub ignore_fmt: bool,
    /// settings changed before any data: (0 set_format_and_level(Zlib), 1 set_format_and_level(
    /// ZLibIgnoreChecksum), 2 set_compression_level_raw, 3 set_compression_level; level)
    #[serde(default)]
    pub relevel: Option<(u8, u8)>,
}

pub struct P;

fn far_seg() -> BoxedStrategy<Seg> {
    // copies at distances just inside / just beyond each declarable window, up to 32 KiB
    let d: Vec<u32> = vec![255, 256, 257, 300, 511, 512, 513, 1023, 1024, 1025, 2047, 2048, 2049, 3000, 4095, 4096, 4097, 5000, 8191, 8192, 8193, 12000, 16383, 16384, 16385, 20000, 32767, 32768];
    let just_beyond = (proptest::sample::select(vec![256u32, 512, 1024, 2048, 4096, 8192, 16384]), 1u32..=48).prop_map(|(w, k)| w + k);
    (prop_oneof![3 => proptest::sample::select(d), 2 => just_beyond, 1 => 1u32..=32768], prop_oneof![3 => 3u32..=40, 2 => 20u32..=600, 1 => size(20000)]).prop_map(|(dist, len)| Seg::CopyBack { dist, len }).boxed()
}

impl Prop for P {
    const ID: &'static str = "C11";
    type Case = Case;
    fn meta() -> Meta {
        Meta {
            level: "exploration",
            rule: "CompressorOxide::with_params(Zlib, level 0..=12, strategy 0..=4, window_bits 0..=16) over inputs dominated by copy-backs at distances just inside / just beyond / far beyond each declarable window (256..32768) and random blocks repeated once, under generated call schedules; oracle: CINFO+8 <= max(w,8), reference inflater in declared-window mode (distance > 2^(CINFO+8) is an error), the crate's own decoder with a ring of exactly the declared size, and system zlib told to trust the header (windowBits=0, 37-byte output chunks). Non-trivial = the input contains a repeat of >= 3 bytes at a distance in (declared window, 32768] that a window-ignoring compressor would use; distinct by case fingerprint",
            assumptions: &["reference inflater (self-checked)", "level changes after construction are outside the statement ('created with')"],
            dbg: false,
            simd: false,
            exhaustive: None,
        }
    }
    fn cases(tier: Tier) -> u64 {
        tier.pick(70_000, 700_000)
    }
    fn strategy(tier: Tier) -> BoxedStrategy<Case> {
        let maxseg = tier.pick(20_000u32, 60_000);
        let base = prop_oneof![2 => (size(maxseg), any::<u64>()).prop_map(|(n, seed)| Seg::Random { n, seed }), 1 => (size(maxseg), any::<u64>()).prop_map(|(n, seed)| Seg::Text { n, seed }), 1 => seg(maxseg)];
        let segs = (base, proptest::collection::vec(prop_oneof![3 => far_seg(), 1 => seg(4000)], 0..6)).prop_map(|(b, mut v)| {
            v.insert(0, b);
            v
        });
        let data = (segs, proptest::bool::weighted(0.3)).prop_map(|(segs, twice)| Recipe { segs, twice });
        // half of the schedules are aligned with the segment boundaries (one call per segment, each with
        // its own flush mode), so that a flush falls exactly between "old data" and its far repeat
        let aligned = proptest::collection::vec((prop_oneof![4 => Just(0u8), 3 => Just(2u8), 1 => Just(3u8), 1 => Just(1u8), 1 => Just(7u8)], prop_oneof![1 => 1u32..=3, 3 => Just(u32::MAX)]), 8);
        (data, prop_oneof![5 => 0u8..=10, 1 => 11u8..=12], 0u8..=4, prop_oneof![8 => 8u8..=15, 1 => 0u8..=7, 1 => Just(16u8)], schedule(3), proptest::option::weighted(0.5, aligned), (proptest::bool::weighted(0.25), proptest::option::weighted(0.2, (0u8..=3, 0u8..=10))))
            .prop_map(|(data, level, strategy, wbits, mut sched, aligned, (ignore_fmt, relevel))| {
                if let Some(al) = aligned {
                    let mut steps = Vec::new();
                    let mut tmp = Vec::new();
                    for (i, sg) in data.segs.iter().enumerate() {
                        let before = tmp.len();
                        sg.append(&mut tmp);
                        let n = (tmp.len() - before) as u32;
                        let (fl, piece) = al[i % al.len()];
                        if piece == u32::MAX || n <= piece {
                            steps.push(crate::gen::config::Step { in_take: n, out_size: 1 << 20, flush: fl });
                        } else {
                            // the segment in tiny flushed writes
                            let mut left = n;
                            while left > 0 && steps.len() < 4000 {
                                let k = left.min(piece);
                                steps.push(crate::gen::config::Step { in_take: k, out_size: 1 << 20, flush: fl });
                                left -= k;
                            }
                        }
                    }
                    sched.steps = steps;
                }
                Case { data, level, strategy, wbits, sched, ignore_fmt, relevel }
            })
            .boxed()
    }
    fn check(case: &Case, cx: &mut Ctx) -> Check {
        let x = case.data.expand();
        let w_eff = case.wbits.min(15).max(8);
        let fmt = if case.ignore_fmt { DataFormat::ZLibIgnoreChecksum } else { DataFormat::Zlib };
        let mut c = guard(|| CompressorOxide::with_params(fmt, case.level, strategy_of(case.strategy as i32), case.wbits)).map_err(|pm| Violation::new(panic_sig("with_params", &pm), format!("with_params panicked: {pm}")))?;
        if case.ignore_fmt {
            cx.class("format:ZLibIgnoreChecksum");
        }
        if let Some((kind, lvl)) = case.relevel {
            // legal before any data; may be refused (documented) - the window promises hold either way
            guard(|| match kind {
                0 => c.set_format_and_level(DataFormat::Zlib, lvl),
                1 => c.set_format_and_level(DataFormat::ZLibIgnoreChecksum, lvl),
                2 => c.set_compression_level_raw(lvl),
                _ => c.set_compression_level([miniz_oxide::deflate::CompressionLevel::NoCompression, miniz_oxide::deflate::CompressionLevel::BestSpeed, miniz_oxide::deflate::CompressionLevel::DefaultLevel, miniz_oxide::deflate::CompressionLevel::BestCompression, miniz_oxide::deflate::CompressionLevel::UberCompression, miniz_oxide::deflate::CompressionLevel::DefaultCompression][lvl as usize % 6]),
            })
            .map_err(|pm| Violation::new(panic_sig("set_level", &pm), format!("setter panicked: {pm}")))?;
            cx.class(&format!("settings-changed-before-data:{kind}"));
        }
        let how = format!("{fmt:?}{}", match case.relevel { Some((k, l)) => format!(", then {}({l})", ["set_format_and_level(Zlib, ", "set_format_and_level(ZLibIgnoreChecksum, ", "set_compression_level_raw(", "set_compression_level(#"][k as usize % 4].trim_end_matches(", ").trim_end_matches('(')), None => String::new() });
        let run = drive_compress(&mut c, &x, &case.sched, Driver::Buf)?;
        let out = &run.out;
        vensure!(out.len() >= 6, "c11:short-output", "zlib output of {} bytes", out.len());
        let cinfo = out[0] >> 4;
        vensure!(out[0] & 15 == 8 && cinfo <= 7, "c11:header", "CMF {:#x}", out[0]);
        let wclass = if case.wbits.min(15) < 12 { "<12" } else if case.wbits < 15 { "12-14" } else { "15" };
        vensure!(cinfo + 8 <= w_eff, format!("c11:header-declares-more-than-requested:w{wclass}"), "window_bits {} requested ({how}), header declares 2^{}", case.wbits, cinfo + 8);
        let declared = 1u32 << (cinfo + 8);
        // plain validity first (C10's business if it fails, but nothing below makes sense without it)
        let r0 = ref_inflate(out, &Opts::zlib());
        vensure!(r0.verdict == Verdict::Valid && r0.out == x, "c11:output-invalid", "output not valid / wrong plaintext: {:?}", r0.verdict);
        let r = ref_inflate(out, &Opts { enforce_declared_window: true, ..Opts::zlib() });
        let sigd = format!("c11:distance-beyond-declared-window:w{wclass}");
        vensure!(r.verdict != Verdict::Invalid(Rule::DistBeyondDeclared), sigd.clone(), "with_params({how}, level {}, strategy {}, window_bits {}): header declares a {} byte window but a match reaches back {} bytes (input {} bytes)", case.level, case.strategy, case.wbits, declared, r0.max_dist(), x.len());
        vensure!(r.verdict == Verdict::Valid, "c11:output-invalid", "declared-window reference run: {:?}", r.verdict);
        // the crate's own decoder with a ring of exactly the declared size
        let mut d = DecompressorOxide::new();
        let sched = DecSched { chunks: vec![], budgets: vec![] };
        let rr = drive(&mut d, out, &DriveOpts { flags: TINFL_FLAG_PARSE_ZLIB_HEADER, mode: BufMode::Ring { bits: cinfo + 8, start: 0, fill_seed: 7 }, sched: &sched, canary: false, max_calls: None, announce: true, flat_start: 0, probe_full_ring: false }, plain_hook)?;
        vensure!(rr.status == TINFLStatus::Done && rr.out == x, sigd.clone(), "decoding with a ring of exactly the declared {} bytes: status {} ({} of {} bytes right)", declared, status_name(rr.status), rr.out.iter().zip(x.iter()).take_while(|(a, b)| a == b).count(), x.len());
        // system zlib trusting the header
        if let Some(z) = zlibffi::z_inflate(out, 0, 37, x.len() + 1024) {
            if !(z.ok && z.out == x) {
                cx.class("oracle_disagreement:zlib(windowBits=0)-rejects-what-declared-window-reference-accepts");
            } else {
                cx.class("zlib(windowBits=0)-accepts");
            }
        }
        // classification: does the input contain a repeat beyond the declared window?
        let mut pos = 0usize;
        let mut far = false;
        for s in &case.data.segs {
            let before = pos;
            let mut tmp = Vec::new();
            if let Seg::CopyBack { dist, len } = s {
                let d = (*dist as usize).clamp(1, before.max(1));
                if before > 0 && d as u32 > declared && d <= 32768 && *len >= 3 {
                    far = true;
                }
                pos += *len as usize;
            } else {
                // cheap length computation
                s.append(&mut tmp);
                pos += tmp.len();
            }
        }
        if case.data.twice && pos as u32 > declared && pos <= 32768 && pos >= 3 {
            far = true;
        }
        if far {
            cx.nontrivial();
            cx.class("input-has-repeat-beyond-declared-window");
        }
        cx.class(&format!("wbits:{:02}", case.wbits));
        cx.class(&format!("declared:{declared}"));
        cx.class(&format!("maxdist-vs-declared:{}", if r0.max_dist() == 0 { "no-match" } else if r0.max_dist() * 2 > declared { "upper-half" } else { "lower-half" }));
        Ok(())
    }
}
