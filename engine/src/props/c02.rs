//! C02: streaming compression is lossless under every call schedule and configuration.

use crate::gen::config::{config, schedule, Config, Schedule};
use crate::gen::data::{recipe, Recipe};
use crate::oracle::inflate::{inflate as ref_inflate, Opts, Verdict};
use crate::runner::*;
use crate::sut::comp::{drive_compress, Driver};
use crate::vensure;
use proptest::prelude::*;
use serde::{Deserialize, Serialize};

#[derive(Clone, Debug, Serialize, Deserialize)]
pub struct Case {
    pub data: Recipe,
    pub cfg: Config,
    pub sched: Schedule,
}

pub struct P;

impl Prop for P {
    const ID: &'static str = "C02";
    type Case = Case;
    fn meta() -> Meta {
        Meta {
            level: "exploration",
            rule: "plaintext recipe x compressor configuration (5 constructors incl. hand-composed flag words, level -1..12, strategy -1..5, raw/zlib, window_bits 0..16) x schedule of (input chunk incl. empty, output buffer 1 byte..1 MiB incl. the 85196 direct-write threshold, one of the 8 flush modes) with Finish sticky, each through core::compress, core::compress_to_output (callback) and stream::deflate, in release and debug-assertion builds; oracle: per-call counts within what was offered, no error status on a legal schedule, finishing phase bounded and progressing, concatenated output Valid for the reference inflater with consumed == total length and plaintext == concatenated input. Non-trivial = a call returned with its output buffer full while work remained, or a mid-stream flush, or the input was split; distinct by case fingerprint",
            assumptions: &["reference inflater (self-checked)", "'legal' = any sequence of the 8 flush modes in which Finish, once issued, is repeated until the stream ends"],
            dbg: true,
            simd: false,
            exhaustive: Some("level-1 fast path: every alignment 0..4096 of the look-ahead chunking against the LZ-code-buffer fill point (70 KB incompressible input after Z zero bytes, small output buffers)"),
        }
    }
    fn cases(tier: Tier) -> u64 {
        tier.pick(90_000, 300_000)
    }
    fn fixed_cases(tier: Tier) -> Vec<Case> {
        // Exhaustive sweep of the alignment between the fast path's 4096-byte look-ahead chunks and the
        // point where the 64 KiB LZ code buffer fills: Z zero bytes followed by ~70 KB of incompressible
        // data, every Z in 0..4096, small output buffers (so the block cannot be delivered at once).
        use crate::gen::config::Ctor;
        use crate::gen::data::Seg;
        let step = tier.pick(1, 1);
        let mut v = Vec::new();
        let mut z = 0u32;
        while z < 4096 {
            let strategy = if z % 2 == 0 { 0 } else { 4 };
            let cfg = Config { ctor: Ctor::Flags, level: 1, strategy, zlib: true, wbits: 15, hand: 0 };
            let data = Recipe { segs: vec![Seg::Run { byte: 0, n: z }, Seg::Random { n: 70_000, seed: 0x5eed ^ z as u64 }], twice: false };
            let out = [997u32, 64, 4096][(z % 3) as usize];
            v.push(Case { data, cfg, sched: Schedule { steps: vec![], finish_out: vec![out] } });
            z += step;
        }
        v
    }
    fn strategy(tier: Tier) -> BoxedStrategy<Case> {
        let data = match tier {
            Tier::Quick => prop_oneof![6 => recipe(3000, 4), 3 => recipe(50_000, 3), 1 => recipe(200_000, 2), 2 => crate::gen::data::recipe_wrap()].boxed(),
            Tier::Thorough => prop_oneof![5 => recipe(3000, 5), 3 => recipe(80_000, 4), 2 => recipe(1_000_000, 3), 3 => crate::gen::data::recipe_wrap()].boxed(),
        };
        let general = (data, config(), schedule(8)).prop_map(|(data, cfg, sched)| Case { data, cfg, sched });
        // "ring-end" family: low-entropy data (matches everywhere, also across the 32 KiB ring end), a first
        // flushed call that misaligns the fast path's 4 KiB chunking, then a call boundary a few bytes
        // past a multiple of 32768
        use crate::gen::config::{Ctor, Step};
        use crate::gen::data::Seg;
        let ring_end = (1u32..=4095, 1u32..=3, 0u32..=12, prop_oneof![Just(2u8), Just(1u8), Just(3u8), Just(7u8)], prop_oneof![3 => Just(1i32), 1 => 2i32..=9], proptest::sample::select(vec![0i32, 0, 4, 1]), any::<bool>(), any::<u64>(), 1u8..=6, prop_oneof![Just(1u32 << 20), 1u32..=5000])
            .prop_map(|(s1, k, delta, fl, level, strategy, zlib, seed, alpha, out)| {
                let total = 32_768 * k + delta;
                let n = total + 300 + (seed % 5000) as u32;
                let seg = if seed & 1 == 0 { Seg::Alphabet { k: alpha, n, seed } } else { Seg::Text { n, seed } };
                let steps = vec![Step { in_take: s1, out_size: out, flush: fl }, Step { in_take: total - s1.min(total), out_size: out, flush: 0 }];
                Case { data: Recipe { segs: vec![seg], twice: false }, cfg: Config { ctor: Ctor::Flags, level, strategy, zlib, wbits: 15, hand: 0 }, sched: Schedule { steps, finish_out: vec![out] } }
            });
        prop_oneof![12 => general, 1 => ring_end].boxed()
    }
    fn check(case: &Case, cx: &mut Ctx) -> Check {
        let x = case.data.expand();
        let zl = case.cfg.is_zlib();
        let mut outs: Vec<Vec<u8>> = Vec::new();
        for driver in [Driver::Buf, Driver::Callback, Driver::Stream] {
            let mut c = guard(|| case.cfg.make()).map_err(|pm| Violation::new(panic_sig("ctor", &pm), format!("constructor panicked: {pm}")))?;
            let run = drive_compress(&mut c, &x, &case.sched, driver)?;
            let r = ref_inflate(&run.out, &Opts::fmt(zl));
            vensure!(r.verdict == Verdict::Valid, "c02:output-not-a-valid-stream", "[{driver:?}] reference inflater: {:?} at bit {} of {} output bytes ({:?}, input {} bytes)", r.verdict, r.bit_pos, run.out.len(), case.cfg, x.len());
            vensure!(r.out == x, "c02:decodes-to-different-bytes", "[{driver:?}] output decodes to {} bytes, input was {} ({:?}); first difference at {}", r.out.len(), x.len(), case.cfg, r.out.iter().zip(x.iter()).take_while(|(a, b)| a == b).count());
            vensure!(r.consumed == run.out.len(), "c02:not-one-stream", "[{driver:?}] {} bytes emitted but the stream ends after {}", run.out.len(), r.consumed);
            if driver == Driver::Buf {
                for b in &r.blocks {
                    // LZ code bytes of the block: 1 per literal, 3 per match, 1 flag byte per 8 tokens
                    let codes = b.n_lit + 3 * b.n_match + (b.n_lit + b.n_match) / 8;
                    if codes >= 65_500 {
                        cx.class("block:ended-because-LZ-code-buffer-was-full");
                    } else if b.out_len > 31 * 1024 && b.btype != 0 {
                        cx.class("block:>31K-not-stored");
                    }
                }
                if run.suspended || run.mid_flush || run.split_input {
                    cx.nontrivial();
                }
                if run.suspended {
                    cx.class("schedule:suspended(output-full)");
                }
                if run.mid_flush {
                    cx.class("schedule:mid-stream-flush");
                }
                if run.split_input {
                    cx.class("schedule:input-split");
                }
                if run.one_byte_out {
                    cx.class("schedule:1-byte-output-buffer");
                }
                if run.direct_write {
                    cx.class("schedule:direct-write-sized-buffer(>=85196)");
                }
                for f in &run.flush_points {
                    cx.class(&format!("flush:{}", f.flush));
                }
                cx.class(&format!("finish-calls:{}", match run.finish_calls { 1 => "1", 2..=4 => "2-4", 5..=64 => "5-64", _ => ">64" }));
            }
            outs.push(run.out);
        }
        cx.evals(2);
        let flags = case.cfg.make().flags() as u32;
        let path = if flags & 0x8_0000 != 0 { "stored" } else if flags & 0xfff == 1 && flags & 0x4000 != 0 && flags & 0x3_0000 == 0 { "fast" } else { "normal" };
        cx.class(&format!("path:{path}"));
        cx.class(&format!("format:{}", if zl { "zlib" } else { "raw" }));
        Ok(())
    }
}
