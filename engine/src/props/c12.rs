//! C12: flush points make all input so far decodable; a full flush cuts history; NoSync+Sync == Sync.

use crate::gen::config::{config, in_take, out_size, Config, Schedule, Step};
use crate::gen::data::{recipe, Recipe};
use crate::oracle::inflate::{inflate as ref_inflate, Opts, Verdict};
use crate::runner::*;
use crate::sut::comp::{drive_compress, Driver};
use crate::vensure;
use miniz_oxide::deflate::core::{compress, TDEFLFlush, TDEFLStatus};
use proptest::prelude::*;
use serde::{Deserialize, Serialize};

#[derive(Clone, Debug, Serialize, Deserialize)]
pub enum Case {
    Points { data: Recipe, cfg: Config, sched: Schedule, driver: Driver },
    NoSyncEquiv { data: Recipe, cfg: Config, cut: u32, opt: bool },
    /// the zlib idiom for a flush into small buffers: repeat the Full flush call until it returns
    /// with space to spare, then go on with data resembling what came before
    FullDrain { data: Recipe, cfg: Config, cut: u32, out_chunk: u32 },
}

/// "After a full flush no later match refers to data from before the flush", read off the token
/// trace of the complete stream: for every input position p at which Full flushes (and no other
/// kind of flush) were requested and at which the stream contains a flush marker (empty stored
/// block), no match after that marker may reach back before p. This also covers flushes whose
/// output was collected over several calls.
fn full_flush_cuts(out: &[u8], zl: bool, x: &[u8], call_log: &[(u8, usize)], eff: &dyn Fn(u8) -> u8, cx: &mut Ctx) -> Check {
    let mut fulls: Vec<usize> = call_log.iter().filter(|(f, _)| eff(*f) == 3).map(|(_, p)| *p).collect();
    fulls.sort();
    fulls.dedup();
    if fulls.is_empty() {
        return Ok(());
    }
    let r = ref_inflate(out, &Opts::fmt(zl).tokens());
    if !r.is_valid() || r.out != x {
        // not this check's business (C02)
        cx.class("full-flush-trace:stream-not-valid(skipped)");
        return Ok(());
    }
    for p in fulls {
        if call_log.iter().any(|(f, q)| *q == p && !matches!(eff(*f), 0 | 3)) {
            cx.class("full-flush-trace:other-flush-kinds-at-same-position(skipped)");
            continue;
        }
        let Some(bi) = r.blocks.iter().rposition(|b| b.btype == 0 && b.stored_len == 0 && !b.bfinal && b.out_start == p) else {
            cx.class("full-flush-trace:no-marker-emitted");
            continue;
        };
        for b in &r.blocks[bi + 1..] {
            let mut q = b.out_start;
            for t in &b.tokens {
                match t {
                    crate::oracle::inflate::Tok::Lit(_) => q += 1,
                    crate::oracle::inflate::Tok::Match { len, dist } => {
                        vensure!(q >= p + *dist as usize, "c12:history-survives-full-flush", "a Full flush was requested after {p} input bytes and its marker is in the stream, but the match at plaintext offset {q} (length {len}) reaches back {dist} bytes, across the flush point");
                        q += *len as usize;
                    }
                }
            }
        }
        cx.class("full-flush-trace:checked");
        if p >= 1 && p < x.len() {
            cx.class("full-flush-trace:checked-midstream");
        }
        cx.evals(1);
    }
    Ok(())
}

pub struct P;

fn flushy_step() -> BoxedStrategy<Step> {
    let fl = prop_oneof![4 => Just(0u8), 3 => Just(2u8), 3 => Just(3u8), 2 => Just(1u8), 1 => proptest::sample::select(vec![5u8, 6, 7])];
    let out = prop_oneof![1 => out_size(), 3 => Just(1u32 << 20), 1 => 200u32..=5000];
    (in_take(), out, fl).prop_map(|(in_take, out_size, flush)| Step { in_take, out_size, flush }).boxed()
}

impl Prop for P {
    const ID: &'static str = "C12";
    type Case = Case;
    fn meta() -> Meta {
        Meta {
            level: "exploration",
            rule: "plaintext recipe x configuration x schedules rich in mid-stream Partial/Sync/Full (and Opt/NoSync) flush requests with output buffers from 1 byte up, through core::compress and stream::deflate; at every flush return that satisfies the property's side conditions (previous call left output space unused; this call consumed all offered input and left space) the reference inflater is run on exactly the bytes emitted so far and must be Incomplete (never Invalid) with output == all input supplied so far; Sync/Full prefixes must end byte-aligned in 00 00 FF FF; the remainder after a Full flush must decode on its own in flat mode (any back-reference across the flush is 'distance before start'); NoSync followed by Sync must be byte-identical to Sync alone. Full flushes collected over several calls: the 'repeat the Full call until it leaves space' idiom with 7..5000-byte buffers, and for every schedule a token-trace oracle (at every input position where only Full flushes were requested and a marker is in the stream, no later match reaches back across it). Non-trivial = a qualifying flush happened with >= 1 byte compressed before and >= 1 byte still to come; distinct by case fingerprint",
            assumptions: &["reference inflater (self-checked)"],
            dbg: false,
            simd: false,
            exhaustive: None,
        }
    }
    fn cases(tier: Tier) -> u64 {
        tier.pick(300_000, 3_000_000)
    }
    fn strategy(tier: Tier) -> BoxedStrategy<Case> {
        let data = match tier {
            Tier::Quick => prop_oneof![6 => recipe(2000, 4), 3 => recipe(40_000, 3), 1 => recipe(150_000, 2)].boxed(),
            Tier::Thorough => prop_oneof![5 => recipe(2000, 5), 3 => recipe(60_000, 4), 2 => recipe(600_000, 3)].boxed(),
        };
        let sched = (proptest::collection::vec(flushy_step(), 1..=8), proptest::collection::vec(out_size(), 1..=3)).prop_map(|(steps, finish_out)| Schedule { steps, finish_out });
        let pts = (data.clone(), config(), sched, prop_oneof![Just(Driver::Buf), Just(Driver::Stream)]).prop_map(|(mut data, cfg, sched, driver)| {
            // make data after a flush resemble data before it (stale-hash bait)
            if data.segs.len() >= 2 {
                data.twice = true;
            }
            Case::Points { data, cfg, sched, driver }
        });
        let ns = (data, config(), any::<u32>(), any::<bool>()).prop_map(|(data, cfg, cut, opt)| Case::NoSyncEquiv { data, cfg, cut, opt });
        let fd = (recipe(6000, 3), config(), any::<u32>(), prop_oneof![3 => 1u32..=64, 2 => 1u32..=600, 1 => 1u32..=5000]).prop_map(|(mut data, cfg, cut, out_chunk)| {
            data.twice = true;
            Case::FullDrain { data, cfg, cut, out_chunk }
        });
        prop_oneof![8 => pts, 1 => ns, 2 => fd].boxed()
    }
    fn check(case: &Case, cx: &mut Ctx) -> Check {
        match case {
            Case::Points { data, cfg, sched, driver } => {
                let x = data.expand();
                let zl = cfg.is_zlib();
                let mut c = cfg.make();
                let run = drive_compress(&mut c, &x, sched, *driver)?;
                for (i, f) in run.flush_points.iter().enumerate() {
                    let fl = if *driver == Driver::Stream { match f.flush { 1 | 6 => 1, 2 | 5 => 2, 3 => 3, _ => 0 } } else { f.flush };
                    cx.class(&format!("flush-request:{fl}:{}", if f.qualifies { "qualifies" } else { "pending-or-partial" }));
                    if !f.qualifies || !matches!(fl, 1 | 2 | 3) {
                        continue;
                    }
                    let prefix = &run.out[..f.out_len];
                    let r = ref_inflate(prefix, &Opts::fmt(zl));
                    vensure!(!matches!(r.verdict, Verdict::Invalid(_)), "c12:prefix-invalid", "bytes emitted up to flush #{i} (mode {fl}) are not a valid stream prefix: {:?} ({cfg:?})", r.verdict);
                    vensure!(r.verdict == Verdict::Incomplete, "c12:prefix-complete?", "prefix at a mid-stream flush is a complete stream: {:?}", r.verdict);
                    vensure!(r.out.len() == f.in_len && r.out[..] == x[..f.in_len], format!("c12:flush{fl}-not-all-input-decodable"), "after flush #{i} (mode {fl}) the {} emitted bytes decode to {} bytes, but {} bytes were supplied ({cfg:?}, driver {driver:?})", f.out_len, r.out.len(), f.in_len);
                    if fl == 2 || fl == 3 {
                        vensure!(prefix.len() >= 4 && prefix[prefix.len() - 4..] == [0, 0, 0xff, 0xff] && r.at_block_boundary && r.bit_pos == prefix.len() * 8, "c12:sync-marker-missing", "prefix after Sync/Full flush #{i} does not end in a byte-aligned empty stored block");
                    }
                    if fl == 3 {
                        let rest = &run.out[f.out_len..];
                        let rr = ref_inflate(rest, &Opts::raw());
                        vensure!(rr.verdict == Verdict::Valid && rr.out[..] == x[f.in_len..], "c12:history-survives-full-flush", "the stream after Full flush #{i} does not decode on its own: {:?} ({} of {} remaining bytes) ({cfg:?})", rr.verdict, rr.out.len(), x.len() - f.in_len);
                        if zl {
                            vensure!(rest.len() == rr.consumed + 4, "c12:trailer", "remainder has {} bytes after the final block", rest.len() - rr.consumed);
                        }
                        cx.class("full-flush:remainder-decoded-standalone");
                    }
                    if f.in_len >= 1 && f.in_len < x.len() {
                        cx.nontrivial();
                        cx.class(&format!("qualifying-flush-midstream:{fl}"));
                    }
                    cx.evals(1);
                }
                let stream_driver = *driver == Driver::Stream;
                full_flush_cuts(&run.out, zl, &x, &run.call_log, &move |f| if stream_driver { match f { 1 | 6 => 1, 2 | 5 => 2, 3 => 3, 4 => 4, _ => 0 } } else { f }, cx)?;
                Ok(())
            }
            Case::FullDrain { data, cfg, cut, out_chunk } => {
                let x = data.expand();
                let zl = cfg.is_zlib();
                // the flush point: in the middle of "twice" data the second half repeats the first
                let mid = x.len() / 2;
                let cut = if cut % 4 == 0 { *cut as usize % (x.len() + 1) } else { (mid + (*cut as usize >> 2) % 9).saturating_sub(4).min(x.len()) };
                // buffers of at least 7 bytes: with fewer, every repeated flush call emits another 5-byte
                // marker that fills the buffer again and the idiom never terminates (zlib documents
                // the same: avail_out must exceed 6 for a flush)
                let k = (*out_chunk).max(7) as usize;
                let mut c = cfg.make();
                let mut out = Vec::new();
                let mut log = Vec::new();
                let mut pos = 0usize;
                let mut calls = 0usize;
                let mut buf = vec![0u8; k];
                loop {
                    let (st, ci, co) = guard(|| compress(&mut c, &x[pos..cut], &mut buf, TDEFLFlush::Full)).map_err(|pm| Violation::new(panic_sig("compress", &pm), format!("compress panicked: {pm}")))?;
                    vensure!(st == TDEFLStatus::Okay && ci <= cut - pos && co <= k, "c12:full-drain-call", "Full flush call #{calls}: status {st:?}, consumed {ci}/{}, written {co}/{k}", cut - pos);
                    pos += ci;
                    out.extend_from_slice(&buf[..co]);
                    log.push((3u8, pos));
                    calls += 1;
                    if pos == cut && co < k {
                        break;
                    }
                    vensure!(calls <= 2 * (cut + 90_000) / k.min(64) + 64, "c12:full-drain-not-terminating", "Full flush into {k}-byte buffers did not complete after {calls} calls");
                }
                let head_len = out.len();
                let mut big = vec![0u8; x.len() - cut + (x.len() - cut) / 4 + 100_000];
                loop {
                    let (st, ci, co) = guard(|| compress(&mut c, &x[pos..], &mut big, TDEFLFlush::Finish)).map_err(|pm| Violation::new(panic_sig("compress", &pm), format!("compress panicked: {pm}")))?;
                    pos += ci;
                    out.extend_from_slice(&big[..co]);
                    log.push((4u8, pos));
                    calls += 1;
                    if st == TDEFLStatus::Done {
                        break;
                    }
                    vensure!(st == TDEFLStatus::Okay && (ci > 0 || co > 0), "c12:full-drain-finish", "Finish after the drained flush: {st:?}, consumed {ci}, written {co}");
                }
                // the last Full call left space and consumed everything: all input so far is decodable
                let r = ref_inflate(&out[..head_len], &Opts::fmt(zl));
                vensure!(r.verdict == Verdict::Incomplete && r.out[..] == x[..cut], "c12:flush3-not-all-input-decodable", "Full flush collected in {k}-byte pieces ({calls} calls): the {head_len} emitted bytes decode to {} of {cut} bytes ({:?}) ({cfg:?})", r.out.len(), r.verdict);
                vensure!(head_len >= 4 && out[head_len - 4..head_len] == [0, 0, 0xff, 0xff] && r.at_block_boundary, "c12:sync-marker-missing", "drained Full flush does not end in the marker");
                // the remainder decodes on its own
                let rr = ref_inflate(&out[head_len..], &Opts::raw());
                vensure!(rr.verdict == Verdict::Valid && rr.out[..] == x[cut..], "c12:history-survives-full-flush", "the stream after a Full flush collected in {k}-byte pieces does not decode on its own: {:?} ({} of {} remaining bytes) ({cfg:?})", rr.verdict, rr.out.len(), x.len() - cut);
                full_flush_cuts(&out, zl, &x, &log, &|f| f, cx)?;
                if log.iter().filter(|(f, _)| *f == 3).count() >= 2 && cut >= 1 && cut < x.len() {
                    cx.nontrivial();
                    cx.class("full-drain:several-calls");
                }
                cx.class("full-drain");
                Ok(())
            }
            Case::NoSyncEquiv { data, cfg, cut, opt } => {
                let x = data.expand();
                let cut = *cut as usize % (x.len() + 1);
                let sync = if *opt { TDEFLFlush::SyncOpt } else { TDEFLFlush::Sync };
                let run = |nosync_first: bool| -> Result<Vec<u8>, Violation> {
                    let mut c = cfg.make();
                    let mut out = Vec::new();
                    let mut buf = vec![0u8; x.len() + x.len() / 4 + 4096];
                    let mut call = |c: &mut _, inp: &[u8], fl: TDEFLFlush, out: &mut Vec<u8>| -> Result<(), Violation> {
                        let (st, ci, co) = guard(|| compress(c, inp, &mut buf, fl)).map_err(|pm| Violation::new(panic_sig("compress", &pm), format!("compress panicked: {pm}")))?;
                        vensure!(st != TDEFLStatus::BadParam && st != TDEFLStatus::PutBufFailed && ci == inp.len(), "c12:nosync-call", "status {st:?}, consumed {ci}/{}", inp.len());
                        out.extend_from_slice(&buf[..co]);
                        Ok(())
                    };
                    if nosync_first {
                        call(&mut c, &x[..cut], TDEFLFlush::NoSync, &mut out)?;
                        call(&mut c, &[], sync, &mut out)?;
                    } else {
                        call(&mut c, &x[..cut], sync, &mut out)?;
                    }
                    call(&mut c, &x[cut..], TDEFLFlush::Finish, &mut out)?;
                    Ok(out)
                };
                let a = run(true)?;
                let b = run(false)?;
                vensure!(a == b, "c12:nosync-then-sync-differs", "NoSync+{sync:?} gives {} bytes, {sync:?} alone {} bytes; first difference at {}", a.len(), b.len(), a.iter().zip(b.iter()).take_while(|(p, q)| p == q).count());
                if cut >= 1 && cut < x.len() {
                    cx.nontrivial();
                }
                cx.class("nosync-equivalence");
                Ok(())
            }
        }
    }
}
