//! C18: reset restores fresh behaviour after any history; results are deterministic.

use super::common::*;
use crate::gen::config::{config, schedule, tdefl_flush, Config, Schedule};
use crate::gen::data::{recipe, Recipe};
use crate::oracle::inflate::{inflate as ref_inflate, Opts, Rule, Verdict};
use crate::runner::*;
use crate::sut::capi;
use crate::sut::dec::*;
use crate::sut::*;
use crate::vensure;
use miniz_oxide::deflate::core::{compress, CompressorOxide, TDEFLStatus};
use miniz_oxide::inflate::stream::{inflate, FullReset, InflateState, MinReset, ZeroReset};
use miniz_oxide::{DataFormat, MZError, MZStatus};
use proptest::prelude::*;
use serde::{Deserialize, Serialize};

#[derive(Clone, Debug, Serialize, Deserialize)]
pub enum Case {
    /// CompressorOxide::reset after history (data_h, sched_h, how many steps of it, optional level change)
    Comp { cfg: Config, data_h: Recipe, sched_h: Schedule, steps_h: u8, finish_h: bool, set_level: Option<u8>, data_w: Recipe, sched_w: Schedule },
    /// InflateState reset policies: 0 MinReset, 1 ZeroReset, 2 FullReset(fmt_w), 3 reset(fmt_w)
    Inflate { h: AnyInput, h_calls: Vec<(u32, u32, u8)>, policy: u8, w: AnyInput, w_calls: Vec<(u32, u32, u8)>, fmt_h: u8, fmt_w: u8 },
    /// DecompressorOxide::init after history
    Core { h: AnyInput, h_sched: DecSched, h_calls: u8, h_ring: bool, w: AnyInput, w_sched: DecSched, w_ring: Option<(u8, u32, u64)> },
    /// mz_deflateReset
    CDeflate { data_h: Recipe, steps_h: Vec<(u32, u32, u8)>, data_w: Recipe, steps_w: Vec<(u32, u32, u8)>, level: i8, zlib: bool, strategy: u8 },
}

pub struct P;

fn fmt_of_u8(v: u8) -> DataFormat {
    [DataFormat::Raw, DataFormat::Zlib, DataFormat::ZLibIgnoreChecksum][v as usize % 3]
}

type CompTrace = (Vec<u8>, Vec<(TDEFLStatus, usize, usize)>);

fn comp_run(c: &mut CompressorOxide, x: &[u8], sched: &Schedule, max_steps: Option<usize>, finish: bool) -> Result<CompTrace, Violation> {
    let mut out = Vec::new();
    let mut tr = Vec::new();
    let mut pos = 0usize;
    let mut i = 0usize;
    loop {
        let in_steps = i < sched.steps.len() && max_steps.map(|m| i < m).unwrap_or(true);
        if !in_steps && !finish {
            break;
        }
        let (take, osz, fl) = if in_steps {
            let s = sched.steps[i];
            ((s.in_take as usize).min(x.len() - pos), s.out_size.max(1) as usize, if s.flush == 4 { 0 } else { s.flush })
        } else {
            (x.len() - pos, sched.finish_out[i % sched.finish_out.len()].max(1) as usize, 4)
        };
        i += 1;
        let mut ob = vec![0u8; osz];
        let (st, ci, co) = guard(|| compress(c, &x[pos..pos + take], &mut ob, tdefl_flush(fl))).map_err(|pm| Violation::new(panic_sig("compress", &pm), format!("panic: {pm}")))?;
        pos += ci;
        out.extend_from_slice(&ob[..co]);
        tr.push((st, ci, co));
        if st != TDEFLStatus::Okay || i > x.len() + 100_000 {
            break;
        }
    }
    Ok((out, tr))
}

type InfTrace = Vec<(usize, Vec<u8>, Result<MZStatus, MZError>)>;

fn inflate_calls(st: &mut InflateState, data: &[u8], calls: &[(u32, u32, u8)]) -> Result<InfTrace, Violation> {
    let mut pos = 0usize;
    let mut tr = Vec::new();
    for &(take, osz, fl) in calls {
        let take = (take as usize).min(data.len() - pos);
        let mut ob = vec![0u8; osz as usize];
        let res = guard(|| inflate(st, &data[pos..pos + take], &mut ob, mzflush(fl))).map_err(|pm| Violation::new(panic_sig("inflate", &pm), format!("panic: {pm}")))?;
        pos += res.bytes_consumed.min(take);
        ob.truncate(res.bytes_written.min(osz as usize));
        tr.push((res.bytes_consumed, ob, res.status));
    }
    Ok(tr)
}

fn icalls() -> BoxedStrategy<Vec<(u32, u32, u8)>> {
    proptest::collection::vec((prop_oneof![1 => 0u32..=3, 1 => 1u32..=60, 2 => Just(u32::MAX)], prop_oneof![1 => 0u32..=3, 1 => 1u32..=300, 2 => Just(1u32 << 16)], proptest::sample::select(vec![0u8, 0, 0, 2, 4, 3])), 0..10).boxed()
}

impl Prop for P {
    const ID: &'static str = "C18";
    type Case = Case;
    fn meta() -> Meta {
        Meta {
            level: "exploration",
            rule: "history H (a stream cut anywhere, any flush, corrupt input, error returns, optional level change) -> reset variant (CompressorOxide::reset; InflateState::reset_as(MinReset|ZeroReset|FullReset(fmt)) and reset(fmt); DecompressorOxide::init; mz_deflateReset) -> workload W, compared with a fresh object of the same settings running W only: byte-identical output and identical per-call results; H;W on two fresh objects is also run twice and must be identical. For MinReset the workload is drawn from streams that do not reference data before their own start (documented: MinReset does not clear the window). Non-trivial = H left the object mid-stream or failed and W's data differs from H's; distinct by case fingerprint",
            assumptions: &["'same settings' after set_compression_level_raw in H = a fresh object on which the same set call was made", "MinReset domain restriction is the crate's documented contract"],
            dbg: false,
            simd: false,
            exhaustive: None,
        }
    }
    fn cases(tier: Tier) -> u64 {
        tier.pick(400_000, 4_000_000)
    }
    fn strategy(_tier: Tier) -> BoxedStrategy<Case> {
        let comp = (config(), recipe(20_000, 3), schedule(6), 0u8..=6, proptest::bool::weighted(0.2), prop_oneof![3 => Just(None), 1 => (0u8..=10).prop_map(Some)], recipe(20_000, 3), schedule(4))
            .prop_map(|(cfg, data_h, sched_h, steps_h, finish_h, set_level, data_w, sched_w)| Case::Comp { cfg, data_h, sched_h, steps_h, finish_h, set_level, data_w, sched_w });
        let inf = (prop_oneof![3 => any_input(), 2 => big_output_input()], icalls(), 0u8..4, prop_oneof![3 => valid_src(false).prop_map(|src| AnyInput { src, muts: vec![] }), 2 => any_input(), 2 => prestart_input()], icalls(), 0u8..3, 0u8..3).prop_map(|(h, h_calls, policy, w, w_calls, fmt_h, fmt_w)| Case::Inflate { h, h_calls, policy, w, w_calls, fmt_h, fmt_w });
        let ring = prop_oneof![2 => Just(None), 1 => (8u8..=16, any::<u32>(), any::<u64>()).prop_map(Some)];
        let core = (prop_oneof![3 => any_input(), 1 => big_output_input()], dec_sched(), 0u8..6, any::<bool>(), prop_oneof![2 => valid_src(false).prop_map(|src| AnyInput { src, muts: vec![] }), 1 => any_input()], dec_sched(), ring).prop_map(|(h, h_sched, h_calls, h_ring, w, w_sched, w_ring)| Case::Core { h, h_sched, h_calls, h_ring, w, w_sched, w_ring });
        let cstep = proptest::collection::vec((prop_oneof![0u32..=3, 1u32..=3000], prop_oneof![1u32..=5, 1u32..=3000], proptest::sample::select(vec![0u8, 0, 0, 1, 2, 3])), 0..6);
        let cd = (recipe(10_000, 3), cstep.clone(), recipe(10_000, 3), cstep, -1i8..=10, any::<bool>(), 0u8..=4).prop_map(|(data_h, steps_h, data_w, steps_w, level, zlib, strategy)| Case::CDeflate { data_h, steps_h, data_w, steps_w, level, zlib, strategy });
        prop_oneof![4 => comp, 3 => inf, 2 => core, 1 => cd].boxed()
    }
    fn check(case: &Case, cx: &mut Ctx) -> Check {
        match case {
            Case::Comp { cfg, data_h, sched_h, steps_h, finish_h, set_level, data_w, sched_w } => {
                let xh = data_h.expand();
                let xw = data_w.expand();
                let make = || {
                    let mut c = cfg.make();
                    if let Some(l) = set_level {
                        c.set_compression_level_raw(*l);
                    }
                    c
                };
                // reused object
                let mut c = make();
                let h1 = comp_run(&mut c, &xh, sched_h, Some(*steps_h as usize), *finish_h)?;
                let mid = h1.1.last().map(|l| l.0 != TDEFLStatus::Done).unwrap_or(true);
                c.reset();
                let w_reused = comp_run(&mut c, &xw, sched_w, None, true)?;
                // fresh object
                let mut f = make();
                let w_fresh = comp_run(&mut f, &xw, sched_w, None, true)?;
                vensure!(w_reused.1 == w_fresh.1, "c18:compressor-reset-per-call-results", "per-call results after reset() differ from a fresh compressor ({cfg:?}); first differing call #{}", w_reused.1.iter().zip(w_fresh.1.iter()).take_while(|(a, b)| a == b).count());
                vensure!(w_reused.0 == w_fresh.0, "c18:compressor-reset-output", "output after reset() differs from a fresh compressor ({cfg:?}, set_level {set_level:?}): {} vs {} bytes, first difference at {}", w_reused.0.len(), w_fresh.0.len(), w_reused.0.iter().zip(w_fresh.0.iter()).take_while(|(a, b)| a == b).count());
                // determinism: H;W twice on fresh objects
                let mut g = make();
                let h2 = comp_run(&mut g, &xh, sched_h, Some(*steps_h as usize), *finish_h)?;
                vensure!(h1 == h2, "c18:nondeterministic", "the same call sequence on two fresh compressors gave different results");
                cx.evals(3);
                if mid && xh != xw && !xh.is_empty() {
                    cx.nontrivial();
                }
                cx.class(if mid { "comp:history-midstream" } else { "comp:history-finished" });
                Ok(())
            }
            Case::Inflate { h, h_calls, policy, w, w_calls, fmt_h, fmt_w } => {
                let Some((dh, _)) = h.bytes(cx) else { return Ok(()) };
                let Some((dw, _)) = w.bytes(cx) else { return Ok(()) };
                let fh = fmt_of_u8(*fmt_h);
                let fw = if *policy < 2 { fh } else { fmt_of_u8(*fmt_w) };
                if *policy == 0 {
                    // MinReset keeps the old window contents: only streams that never look before their own start
                    let zl = fw != DataFormat::Raw;
                    let v = ref_inflate(&dw, &Opts { max_out: 4 << 20, ignore_adler: fw == DataFormat::ZLibIgnoreChecksum, ..Opts::fmt(zl) });
                    if matches!(v.verdict, Verdict::Invalid(Rule::DistTooFar) | Verdict::TooBig) {
                        cx.class("inflate:MinReset-domain-excluded(pre-stream-reference)");
                        return Ok(());
                    }
                }
                let mut st = InflateState::new_boxed(fh);
                let th = inflate_calls(&mut st, &dh, h_calls)?;
                let failed = th.iter().any(|c| c.2.is_err());
                let mid = th.last().map(|c| c.2 != Ok(MZStatus::StreamEnd)).unwrap_or(true);
                match policy {
                    0 => st.reset_as(MinReset),
                    1 => st.reset_as(ZeroReset),
                    2 => st.reset_as(FullReset(fw)),
                    _ => st.reset(fw),
                }
                {
                    let mut f = InflateState::new_boxed(fw);
                    let got = (st.decompressor().adler32(), st.decompressor().adler32_header(), st.last_status());
                    let want = (f.decompressor().adler32(), f.decompressor().adler32_header(), f.last_status());
                    vensure!(got == want, format!("c18:inflate-reset-policy{policy}-getters-differ"), "right after reset policy {policy}: (decompressor().adler32(), adler32_header(), last_status()) = {got:?}; a new state reports {want:?}");
                }
                let w_reused = inflate_calls(&mut st, &dw, w_calls)?;
                let mut fresh = InflateState::new_boxed(fw);
                let w_fresh = inflate_calls(&mut fresh, &dw, w_calls)?;
                vensure!(w_reused == w_fresh, format!("c18:inflate-reset-policy{policy}-differs"), "after reset policy {policy} (0 Min, 1 Zero, 2 Full, 3 reset()) the inflater behaves differently from a fresh one on the same calls; first differing call #{} of {}", w_reused.iter().zip(w_fresh.iter()).take_while(|(a, b)| a == b).count(), w_calls.len());
                // determinism
                let mut st2 = InflateState::new_boxed(fh);
                let th2 = inflate_calls(&mut st2, &dh, h_calls)?;
                vensure!(th == th2, "c18:nondeterministic", "same inflate calls on two fresh states differ");
                cx.evals(3);
                if (mid || failed) && dh != dw && !h_calls.is_empty() {
                    cx.nontrivial();
                }
                cx.class(&format!("inflate:policy{policy}"));
                if failed {
                    cx.class("inflate:history-had-error");
                }
                Ok(())
            }
            Case::Core { h, h_sched, h_calls, h_ring, w, w_sched, w_ring } => {
                let Some((dh, zh)) = h.bytes(cx) else { return Ok(()) };
                let Some((dw, zw)) = w.bytes(cx) else { return Ok(()) };
                let vw = ref_inflate(&dw, &Opts { max_out: 2 << 20, ..Opts::fmt(zw) });
                if vw.verdict == Verdict::TooBig {
                    return Ok(());
                }
                let mut d = DecompressorOxide::new();
                let hm = if *h_ring { BufMode::Ring { bits: 15, start: 0, fill_seed: 1 } } else { BufMode::Flat { cap: 70_000 } };
                let rh = drive(&mut d, &dh, &DriveOpts { flags: zflags(zh), mode: hm, sched: h_sched, canary: false, max_calls: Some(*h_calls as u64 + 1), announce: true, flat_start: 0, probe_full_ring: false }, plain_hook)?;
                d.init();
                {
                    // observable state right after init(), before the next decode call
                    let f = DecompressorOxide::new();
                    vensure!(d.adler32() == f.adler32() && d.adler32_header() == f.adler32_header(), "c18:decoder-init-getters-differ", "right after init(): adler32() = {:?}, adler32_header() = {:?}; a new decoder reports {:?} / {:?}", d.adler32(), d.adler32_header(), f.adler32(), f.adler32_header());
                }
                let wm = match w_ring {
                    None => BufMode::Flat { cap: vw.out.len() + 300 },
                    Some((b, s, f)) => BufMode::Ring { bits: *b, start: *s, fill_seed: *f },
                };
                let go = |d: &mut DecompressorOxide| -> Result<(Vec<u8>, TINFLStatus, usize, Vec<(u8, TINFLStatus)>), Violation> {
                    let r = drive(d, &dw, &DriveOpts { flags: zflags(zw), mode: wm, sched: w_sched, canary: false, max_calls: None, announce: true, flat_start: 0, probe_full_ring: false }, plain_hook)?;
                    Ok((r.out, r.status, r.consumed, r.suspensions))
                };
                let a = go(&mut d)?;
                let mut fresh = DecompressorOxide::new();
                let b = go(&mut fresh)?;
                vensure!(a == b, "c18:decoder-init-differs", "after init() the decoder gives ({} bytes, {}, consumed {}) but a fresh one ({} bytes, {}, consumed {})", a.0.len(), status_name(a.1), a.2, b.0.len(), status_name(b.1), b.2);
                cx.evals(3);
                if !matches!(rh.status, TINFLStatus::Done) && dh != dw {
                    cx.nontrivial();
                }
                cx.class(&format!("core:history-ended-{}", status_name(rh.status)));
                Ok(())
            }
            Case::CDeflate { data_h, steps_h, data_w, steps_w, level, zlib, strategy } => {
                let xh = data_h.expand();
                let xw = data_w.expand();
                let sh: Vec<(u32, u32, i32)> = steps_h.iter().map(|&(a, b, f)| (a, b, f as i32)).collect();
                let sw: Vec<(u32, u32, i32)> = steps_w.iter().map(|&(a, b, f)| (a, b, f as i32)).collect();
                let wb = if *zlib { 15 } else { -15 };
                let reused = capi::mz_deflate_reset_run(&xh, &sh, &xw, &sw, *level as i32, wb, *strategy as i32)?;
                let fresh = capi::mz_deflate_run(&xw, *level as i32, wb, *strategy as i32, &sw, 300)?;
                vensure!(reused.out == fresh.out && reused.per_call.iter().map(|c| (c.0, c.2, c.4)).collect::<Vec<_>>() == fresh.per_call.iter().map(|c| (c.0, c.2, c.4)).collect::<Vec<_>>(), "c18:mz_deflateReset-differs", "after mz_deflateReset the stream emits {} bytes, a fresh stream {} bytes; first difference at {}", reused.out.len(), fresh.out.len(), reused.out.iter().zip(fresh.out.iter()).take_while(|(a, b)| a == b).count());
                vensure!(reused.total_in == fresh.total_in && reused.total_out == fresh.total_out && reused.adler == fresh.adler, "c18:mz_deflateReset-counters", "totals/adler after reset differ: ({}, {}, {:#x}) vs ({}, {}, {:#x})", reused.total_in, reused.total_out, reused.adler, fresh.total_in, fresh.total_out, fresh.adler);
                cx.evals(2);
                if !sh.is_empty() && xh != xw {
                    cx.nontrivial();
                }
                cx.class("c-deflate-reset");
                Ok(())
            }
        }
    }
}
