//! C15: the advertised compression bound really bounds one-shot output.

use crate::gen::data::{Recipe, Seg};
use crate::oracle::sums::splitmix64;
use crate::runner::*;
use crate::sut::capi;
use crate::vensure;
use miniz_oxide::deflate::core::{compress, create_comp_flags_from_zip_params, CompressorOxide, TDEFLFlush, TDEFLStatus};
use proptest::prelude::*;
use serde::{Deserialize, Serialize};

#[derive(Clone, Debug, Serialize, Deserialize)]
pub enum Case {
    /// every data class x level -1..=10 x strategy 0..=4 at this exact length
    Len { n: u32 },
    One { n: u32, class: u8, seed: u64, level: i8, strategy: u8 },
    Recipe { data: Recipe, level: i8, strategy: u8 },
}

pub struct P;

pub const NCLASS: u8 = 7;

/// adversarial data classes
pub fn gen_class(class: u8, n: usize, seed: u64) -> Vec<u8> {
    let mut s = seed ^ 0x9e37_79b9;
    let mut v = Vec::with_capacity(n);
    match class % NCLASS {
        0 => v.resize(n, 0),
        1 => {
            for _ in 0..n {
                v.push(splitmix64(&mut s) as u8)
            }
        }
        2 => {
            // bytes 144..=255: the 9-bit literals of the fixed code
            for _ in 0..n {
                v.push(144 + ((splitmix64(&mut s) >> 20) % 112) as u8)
            }
        }
        3 => {
            // random with a sparse 3-byte repeat every ~300 bytes ("not fat": keeps a block open)
            while v.len() < n {
                let here = v.len();
                if here > 400 && here % 300 < 3 {
                    let b = v[here - 257];
                    v.push(b);
                } else {
                    v.push(splitmix64(&mut s) as u8);
                }
            }
        }
        4 => {
            // random with sparse 258-byte repeats
            while v.len() < n {
                let here = v.len();
                if here > 5000 && here % 4096 < 258 {
                    let b = v[here - 4096];
                    v.push(b);
                } else {
                    v.push(splitmix64(&mut s) as u8);
                }
            }
        }
        5 => {
            for i in 0..n {
                v.push(if i % 2 == 0 { 0xAA } else { (splitmix64(&mut s) >> 9) as u8 })
            }
        }
        _ => {
            // high bytes with sparse short repeats (9-bit literals and a block that never looks "fat")
            while v.len() < n {
                let here = v.len();
                if here > 600 && here % 40 < 3 {
                    let b = v[here - 300];
                    v.push(b);
                } else {
                    v.push(144 + ((splitmix64(&mut s) >> 20) % 112) as u8);
                }
            }
        }
    }
    v
}

fn one(x: &[u8], level: i32, strategy: i32, what: &str, cx: &mut Ctx) -> Check {
    let n = x.len();
    let bound = capi::compress_bound(n);
    vensure!(capi::deflate_bound(n) == bound, "c15:bounds-disagree", "mz_deflateBound({n}) = {} but mz_compressBound({n}) = {bound}", capi::deflate_bound(n));
    // one case in four on a stream object that has been used (Init .. End) before
    let reuse = (n + level as usize + strategy as usize) % 4 == 3;
    let (rc, total, written, bound_s) = capi::deflate_finish_once_ex(x, level, strategy, bound * 2 + 4096, reuse)?;
    cx.evals(1);
    vensure!(rc == 1, "c15:finish-once", "mz_deflate(MZ_FINISH) with a huge buffer returned {rc}");
    vensure!(total == written, "c15:total_out-is-not-what-was-written", "{what}: total_out {total} after mz_deflate(MZ_FINISH) but {written} bytes were written (stream object used before: {reuse})");
    vensure!(total <= bound_s, format!("c15:bound-exceeded:stream-arg"), "{what}: {n} input bytes at level {level} strategy {strategy} compressed to {total} bytes > mz_deflateBound(stream, {n}) = {bound_s} asked of the stream that did the compression");
    if reuse {
        cx.class("stream-object-reused");
    }
    let sclass = if strategy == 4 { "fixed-strategy" } else { "other-strategy" };
    vensure!(total <= bound, format!("c15:bound-exceeded:{sclass}"), "{what}: {n} input bytes at level {level} strategy {strategy} compressed to {total} bytes > mz_deflateBound({n}) = {bound}");
    if total > n || near_threshold(n) {
        cx.sub_nontrivial(crate::oracle::sums::fnv64(x).wrapping_add(level as u64 * 31 + strategy as u64));
    }
    // the same through CompressorOxide directly
    let flags = create_comp_flags_from_zip_params(level, 15, strategy);
    let mut c = CompressorOxide::new(flags);
    let mut out = vec![0u8; bound * 2 + 4096];
    let (st, ci, co) = guard(|| compress(&mut c, x, &mut out, TDEFLFlush::Finish)).map_err(|pm| Violation::new(panic_sig("compress", &pm), format!("panic: {pm}")))?;
    vensure!(st == TDEFLStatus::Done && ci == n, "c15:finish-once", "core::compress Finish: {st:?} consumed {ci}/{n}");
    vensure!(co <= bound, format!("c15:bound-exceeded:{sclass}"), "{what}: CompressorOxide produced {co} bytes > bound {bound} for {n} bytes at level {level} strategy {strategy}");
    if total * 1000 > bound * 985 {
        cx.class("within-1.5%-of-bound");
    }
    Ok(())
}

fn near_threshold(n: usize) -> bool {
    for t in [0usize, 4, 32, 48, 300, 31744, 32768, 58250, 65536, 85196] {
        for k in 1..=16usize {
            if (n as i64 - (t * k) as i64).abs() <= 2 {
                return true;
            }
        }
    }
    false
}

impl Prop for P {
    const ID: &'static str = "C15";
    type Case = Case;
    fn meta() -> Meta {
        Meta {
            level: "exploration",
            rule: "lengths 0..=300 EXHAUSTIVELY x 7 data classes (zeros, random, bytes 144..255, random with sparse 3-byte repeats, sparse 258-byte repeats, alternating, high bytes with sparse repeats) x level -1..=10 x strategy 0..=4; then lengths within +-2 of multiples of 31744 / 32768 / 58250 / 65536 / 85196 up to 1 MiB (quick) / 8 MiB (thorough) with the adversarial classes, and generic recipes; oracle: total_out of one mz_deflate(MZ_FINISH) with a huge buffer <= mz_deflateBound(n) == mz_compressBound(n), the same through CompressorOxide, and mz_compress2 into a destination of exactly mz_compressBound(n) returns MZ_OK. Non-trivial = output larger than input (expansion really happened) or length within 2 of a threshold; distinct by (data, level, strategy)",
            assumptions: &["mz_deflateInit2(level, MZ_DEFLATED, 15, 9, strategy) is the configuration space the bound is advertised for"],
            dbg: false,
            simd: false,
            exhaustive: Some("every length 0..=300 x 7 data classes x 12 levels x 5 strategies"),
        }
    }
    fn cases(tier: Tier) -> u64 {
        tier.pick(4_000, 40_000)
    }
    fn fixed_cases(tier: Tier) -> Vec<Case> {
        let mut v: Vec<Case> = (0..=300u32).map(|n| Case::Len { n }).collect();
        let maxn: i64 = tier.pick(1 << 20, 8 << 20);
        for t in [31744i64, 32768, 58250, 65536, 85196] {
            let mut k = 1;
            while t * k <= maxn {
                for d in [-2i64, 0, 1] {
                    let n = (t * k + d) as u32;
                    for class in [1u8, 2, 3, 6] {
                        for (level, strategy) in [(1i8, 0u8), (1, 4), (6, 0), (6, 4), (0, 0), (9, 1)] {
                            v.push(Case::One { n, class, seed: n as u64 * 7 + class as u64, level, strategy });
                        }
                    }
                }
                k = if k < 4 { k + 1 } else { k * 2 };
            }
        }
        v
    }
    fn strategy(tier: Tier) -> BoxedStrategy<Case> {
        let maxn = tier.pick(400_000u32, 3_000_000);
        let one = (prop_oneof![3 => 0u32..=70_000, 1 => 0u32..=maxn], 0u8..NCLASS, any::<u64>(), -1i8..=10, 0u8..=4).prop_map(|(n, class, seed, level, strategy)| Case::One { n, class, seed, level, strategy });
        let rec = (crate::gen::data::recipe(60_000, 3), -1i8..=10, 0u8..=4).prop_map(|(data, level, strategy)| Case::Recipe { data, level, strategy });
        prop_oneof![3 => one, 1 => rec].boxed()
    }
    fn check(case: &Case, cx: &mut Ctx) -> Check {
        match case {
            Case::Len { n } => {
                for class in 0..NCLASS {
                    let x = gen_class(class, *n as usize, *n as u64 * 131 + class as u64);
                    for level in -1..=10 {
                        for strategy in 0..=4 {
                            one(&x, level, strategy, &format!("class {class}"), cx)?;
                        }
                    }
                    // mz_compress2 with a destination of exactly the bound
                    for level in [-1, 0, 1, 6, 10] {
                        let b = capi::compress_bound(x.len());
                        let (rc, _) = capi::compress2(&x, level, b)?;
                        vensure!(rc == 0, "c15:compress2-fails-with-bound-sized-dest", "mz_compress2(level {level}) with a destination of mz_compressBound({}) = {b} bytes returned {rc}", x.len());
                    }
                }
                cx.nontrivial();
                Ok(())
            }
            Case::One { n, class, seed, level, strategy } => {
                let x = gen_class(*class, *n as usize, *seed);
                one(&x, *level as i32, *strategy as i32, &format!("class {class}"), cx)?;
                let b = capi::compress_bound(x.len());
                let (rc, _) = capi::compress2(&x, *level as i32, b)?;
                vensure!(rc == 0, "c15:compress2-fails-with-bound-sized-dest", "mz_compress2(level {level}) with a destination of exactly the bound ({b}) returned {rc} for {n} bytes of class {class}");
                cx.nontrivial();
                cx.class(&format!("class:{class}"));
                Ok(())
            }
            Case::Recipe { data, level, strategy } => {
                let x = data.expand();
                one(&x, *level as i32, *strategy as i32, "recipe", cx)?;
                cx.class("recipe");
                let _ = Seg::Raw(vec![]);
                Ok(())
            }
        }
    }
}
