//! C13: streaming inflate obeys its status protocol and always makes progress.
//! Oracle = relation over call histories encoding only the property's clauses (DESIGN 3.6).

use super::common::*;
use crate::oracle::inflate::{inflate as ref_inflate, Opts, Verdict, WindowMode};
use crate::oracle::streamgen::{build, Block, Bytes, CodeParams, DKind, Directive, GTok, StreamRecipe};
use crate::runner::*;
use crate::sut::dec::{fmt_of, inflate_loop_driver, mzflush};
use crate::{vensure, vfail};
use miniz_oxide::inflate::stream::{inflate, InflateState};
use miniz_oxide::{MZError, MZFlush, MZStatus};
use proptest::prelude::*;
use serde::{Deserialize, Serialize};

#[derive(Clone, Copy, Debug, Serialize, Deserialize, PartialEq, Eq)]
pub struct Call {
    pub take: u32,
    pub out: u32,
    /// MZFlush: 0 None, 1 Partial, 2 Sync, 3 Full, 4 Finish, 5 Block
    pub flush: u8,
}

#[derive(Clone, Debug, Serialize, Deserialize)]
pub enum Case {
    Dfs { root: u16, prefix: Vec<u16>, depth: u8 },
    Random { input: AnyInput, tail: Vec<u8>, calls: Vec<Call> },
    Driver { src: Src, chunks: Vec<u32>, outs: Vec<u32>, mid: u8, finish: bool },
}

pub struct P;

const TAKES: [u32; 4] = [0, 1, 2, u32::MAX];
const OUTS: [u32; 4] = [0, 1, 3, 1 << 16];
const FLUSHES: [u8; 4] = [0, 2, 4, 3];
const NLETTERS: u16 = 64;

fn letter(i: u16) -> Call {
    let i = i as usize;
    Call { take: TAKES[i % 4], out: OUTS[(i / 4) % 4], flush: FLUSHES[(i / 16) % 4] }
}

fn cp(seed: u64) -> CodeParams {
    CodeParams { seed, p_deep: 128, max_len: 15, extra_lit: 2, extra_dist: 1, hlit_slack: 0, hdist_slack: 0, hclen_slack: 0, rle_mode: 2, keep_single: false }
}

/// the fixed streams explored exhaustively: (bytes, zlib)
fn roots() -> Vec<(Vec<u8>, bool, &'static str)> {
    let lit = |s: &str| s.bytes().map(GTok::Lit).collect::<Vec<_>>();
    let mut v: Vec<(Vec<u8>, bool, &'static str)> = Vec::new();
    let small = StreamRecipe { zlib: None, blocks: vec![Block::Fixed { toks: [lit("hello "), vec![GTok::Match { len: 6, dsel: 65535, alt258: false }], lit("!")].concat() }], directive: None };
    v.push((build(&small).bytes, false, "valid-raw-small"));
    let mut z = small.clone();
    z.zlib = Some((7, 2));
    v.push((build(&z).bytes, true, "valid-zlib-small"));
    let multi = StreamRecipe {
        zlib: Some((7, 1)),
        blocks: vec![Block::Stored { data: Bytes::Raw(b"stored-bytes".to_vec()), pad: 5 }, Block::Dynamic { toks: [lit("abcabc"), vec![GTok::Match { len: 20, dsel: 30000, alt258: false }], lit("xyz")].concat(), code: cp(7) }, Block::Fixed { toks: vec![] }, Block::Stored { data: Bytes::Raw(vec![]), pad: 0 }],
        directive: None,
    };
    v.push((build(&multi).bytes, true, "valid-zlib-multiblock"));
    let mut t = build(&small).bytes;
    t.extend_from_slice(&[0x78, 0x9c, 1, 2, 3]);
    v.push((t, false, "valid-raw-with-trailing-bytes"));
    let mut t = build(&multi).bytes;
    t.extend_from_slice(&[9, 9, 9]);
    v.push((t, true, "valid-zlib-with-trailing-bytes"));
    let b = build(&multi).bytes;
    v.push((b[..b.len() / 2].to_vec(), true, "truncated-mid-stream"));
    v.push((b[..b.len() - 2].to_vec(), true, "truncated-in-trailer"));
    let mut bad = multi.clone();
    bad.directive = Some(Directive { kind: DKind::Btype3, block: 2, pos: 0 });
    v.push((build(&bad).bytes, true, "corrupt-reserved-block-type-after-output"));
    let mut bad = multi.clone();
    bad.directive = Some(Directive { kind: DKind::BadAdler, block: 0, pos: 3 });
    v.push((build(&bad).bytes, true, "bad-checksum"));
    v.push((vec![0x78, 0x9d, 0x03, 0x00], true, "bad-zlib-header"));
    let run = StreamRecipe { zlib: None, blocks: vec![Block::Fixed { toks: [lit("a"), vec![GTok::Match { len: 258, dsel: 0, alt258: false }; 140]].concat() }], directive: None };
    v.push((build(&run).bytes, false, "valid-36K-output-from-few-bytes(window-wraps)"));
    v.push((vec![0x03, 0x00], false, "valid-empty"));
    let mut far = small.clone();
    far.directive = Some(Directive { kind: DKind::DistTooFar, block: 0, pos: 3 });
    v.push((build(&far).bytes, false, "distance-before-start(ring-zero-semantics)"));
    v
}

struct Truth {
    data: Vec<u8>,
    /// what a ring-zero decoder produces before its verdict
    out: Vec<u8>,
    verdict: Verdict,
    enc: usize,
}

fn truth(data: &[u8], zlib: bool) -> Truth {
    let zero = vec![0u8; 32768];
    let r = ref_inflate(data, &Opts { window: WindowMode::Ring { init: &zero, start: 0 }, max_out: 8 << 20, ..Opts::fmt(zlib) });
    Truth { data: data.to_vec(), out: r.out, verdict: r.verdict, enc: r.consumed }
}

#[derive(Clone, Default)]
struct Model {
    consumed: usize,
    delivered: usize,
    ncalls: u32,
    ended: bool,
    data_err: bool,
    finish_seen: bool,
    /// first call was Finish and did not end the stream: documented "then errors" territory
    dead: bool,
    /// sticky Err(Buf) after a Finish that could not make progress
    buf_sticky: bool,
    /// the most recent non-refused call left output space unused (=> nothing pending in the window)
    nothing_pending: bool,
    had_pending_return: bool,
    finish_could_not: bool,
}

fn step(st: &mut InflateState, m: &mut Model, t: &Truth, call: Call, cx: &mut Ctx) -> Check {
    let take = (call.take as usize).min(t.data.len() - m.consumed);
    let chunk = &t.data[m.consumed..m.consumed + take];
    let osz = call.out as usize;
    let mut ob = vec![0u8; osz];
    let flush = mzflush(call.flush);
    let res = guard(|| inflate(st, chunk, &mut ob, flush)).map_err(|pm| Violation::new(panic_sig("inflate", &pm), format!("inflate() panicked: {pm} ({call:?})")))?;
    cx.evals(1);
    vensure!(res.bytes_consumed <= take && res.bytes_written <= osz, "c13:counts", "consumed {}/{take} written {}/{osz}", res.bytes_consumed, res.bytes_written);
    if flush == MZFlush::Full {
        vensure!(res.status == Err(MZError::Stream) && res.bytes_consumed == 0 && res.bytes_written == 0, "c13:full-flush-not-stream-error", "Full flush: {res:?}");
        return Ok(());
    }
    // a refused Full call does not count as the stream's first call
    let first = m.ncalls == 0;
    m.ncalls += 1;
    let finish_before = m.finish_seen;
    if flush == MZFlush::Finish && !m.data_err && !m.dead {
        m.finish_seen = true;
    }
    // delivered bytes extend a prefix of the truth
    let w = res.bytes_written;
    if m.dead {
        // after a failed first-call Finish only "errors" are promised
        vensure!(res.status.is_err() && w == 0 && res.bytes_consumed == 0, "c13:after-failed-first-finish", "call after a first-call Finish that could not finish: {res:?}");
        return Ok(());
    }
    vensure!(m.delivered + w <= t.out.len() && ob[..w] == t.out[m.delivered..m.delivered + w], "c13:delivered-not-plaintext-prefix", "bytes delivered ({} + {w}) are not a prefix of the true plaintext ({} bytes)", m.delivered, t.out.len());
    if m.data_err {
        vensure!(res.status == Err(MZError::Data) && w == 0 && res.bytes_consumed == 0, "c13:data-error-not-sticky", "call after a data error: {res:?}");
        return Ok(());
    }
    if finish_before && flush != MZFlush::Finish {
        // not covered by a clause; the implementation refuses it. Accept a refusal without effect.
        if res.status.is_err() && w == 0 && res.bytes_consumed == 0 {
            return Ok(());
        }
    }
    if m.ended {
        vensure!(res.status == Ok(MZStatus::StreamEnd) && w == 0 && res.bytes_consumed == 0, "c13:stream-end-not-stable", "legal call after StreamEnd: {res:?}");
        return Ok(());
    }
    m.consumed += res.bytes_consumed;
    m.delivered += w;
    let all_delivered = m.delivered == t.out.len() && t.verdict == Verdict::Valid;
    let last_consumed = m.consumed == t.enc && t.verdict == Verdict::Valid;
    let was_nothing_pending = m.nothing_pending;
    m.nothing_pending = w < osz;
    if w == osz && !all_delivered {
        m.had_pending_return = true;
    }
    match res.status {
        Ok(MZStatus::StreamEnd) => {
            vensure!(all_delivered && last_consumed, "c13:premature-stream-end", "StreamEnd with {} of {} bytes delivered, {} of {} consumed (verdict {:?})", m.delivered, t.out.len(), m.consumed, t.enc, t.verdict);
            m.ended = true;
        }
        Ok(MZStatus::Ok) => {
            vensure!(!(all_delivered && last_consumed), "c13:stream-end-not-reported", "everything delivered and the last byte consumed, yet the status is Ok ({call:?})");
        }
        Ok(other) => vfail!("c13:unexpected-status", "{other:?}"),
        Err(MZError::Data) => {
            if first && flush == MZFlush::Finish {
                // documented shortcut: a first call with Finish decodes straight into the caller's buffer
                // (flat semantics, no window), so a reference before the start of the output is an error here
                m.dead = true;
            } else {
                vensure!(matches!(t.verdict, Verdict::Invalid(_)), "c13:data-error-on-sound-input", "Err(Data) but the input so far is a prefix of a valid stream / valid (reference: {:?})", t.verdict);
                m.data_err = true;
            }
        }
        Err(MZError::Buf) => {
            if first && flush == MZFlush::Finish {
                m.dead = true;
            } else if flush == MZFlush::Finish {
                m.finish_could_not = true;
                if res.bytes_consumed == 0 && w == 0 {
                    m.buf_sticky = true;
                }
            } else {
                vensure!(take == 0 || m.buf_sticky, "c13:buf-error-with-input", "Err(Buf) from a non-Finish call that was given {take} input bytes ({res:?})");
                // (a starved call may still hand over bytes that were pending inside the decoder; no clause forbids it)
                vensure!(res.bytes_consumed == 0, "c13:buf-error-consumed-input", "starved call consumed input: {res:?}");
            }
        }
        Err(MZError::Stream) => vfail!("c13:unexpected-stream-error", "Err(Stream) for {call:?} (finish seen before: {finish_before})"),
        Err(e) => vfail!("c13:unexpected-status", "{e:?}"),
    }
    if first && flush == MZFlush::Finish && res.status != Ok(MZStatus::StreamEnd) {
        m.dead = true;
    }
    // progress
    if take > 0 && osz > 0 && res.status == Ok(MZStatus::Ok) {
        vensure!(res.bytes_consumed + w > 0, "c13:no-progress", "non-empty input ({take}) and output ({osz}) but nothing consumed or written, status Ok");
    }
    // Finish on a truncated stream with nothing pending is a buffer error
    if flush == MZFlush::Finish && !first && was_nothing_pending && t.verdict == Verdict::Incomplete && m.consumed - res.bytes_consumed + take == t.data.len() && osz > 0 {
        vensure!(res.status == Err(MZError::Buf) || w == osz, "c13:finish-on-truncated-not-buf-error", "Finish with the whole truncated input offered and nothing pending: {res:?}");
    }
    Ok(())
}

fn dfs(st: &InflateState, m: &Model, t: &Truth, depth: u8, cx: &mut Ctx, path: &mut Vec<u16>) -> Check {
    if depth == 0 {
        return Ok(());
    }
    for l in 0..NLETTERS {
        let mut s2 = st.clone();
        let mut m2 = m.clone();
        path.push(l);
        step(&mut s2, &mut m2, t, letter(l), cx).map_err(|mut v| {
            v.msg = format!("{} [path {:?}]", v.msg, path.iter().map(|&i| letter(i)).collect::<Vec<_>>());
            v
        })?;
        // (fingerprints only for length-3 paths: deeper ones would cost more memory than they inform)
        if path.len() == 3 && (m2.had_pending_return || m2.finish_could_not) {
            cx.sub_nontrivial(crate::oracle::sums::fnv64(format!("{path:?}{}", t.data.len()).as_bytes()));
        }
        dfs(&s2, &m2, t, depth - 1, cx, path)?;
        path.pop();
    }
    Ok(())
}

impl Prop for P {
    const ID: &'static str = "C13";
    type Case = Case;
    fn meta() -> Meta {
        Meta {
            level: "exploration",
            rule: "call histories on stream::inflate: (1) exhaustive DFS to depth 3 (quick) / 4 (thorough) over a 64-letter alphabet (input 0/1/2/rest x output 0/1/3/64K x flush None/Sync/Finish/Full) from 13 fixed streams (valid raw/zlib, multi-block, with trailing bytes, truncated mid-stream and in the trailer, corrupt after some output, bad checksum, bad header, 36 KB output from few bytes, empty, distance-before-start), cloning InflateState at each node; (2) random histories of up to 200 calls over generated valid/invalid/truncated inputs with trailing bytes; (3) the two usual driver loops under generated buffer schedules. After every call the protocol relation is evaluated against the ground truth (reference inflater with zeroed-ring semantics). Non-trivial = history of length >= 3 containing a call that returned with window data still pending or a Finish that could not finish; distinct by path / case fingerprint",
            assumptions: &["reference inflater (self-checked) with zero-initialised 32 KiB ring semantics is the ground truth for what inflate() may deliver", "clauses not stated by the property are left open (first-call Finish with a too-small buffer; a non-Finish call after Finish)"],
            dbg: true,
            simd: false,
            exhaustive: Some("all call sequences of length <= 3 over the 64-letter alphabet from each of the 13 fixed streams"),
        }
    }
    fn cases(tier: Tier) -> u64 {
        tier.pick(250_000, 2_500_000)
    }
    fn fixed_cases(tier: Tier) -> Vec<Case> {
        let n = roots().len() as u16;
        let mut v = Vec::new();
        for root in 0..n {
            for l in 0..NLETTERS {
                match tier {
                    Tier::Quick => v.push(Case::Dfs { root, prefix: vec![l], depth: 3 }),
                    Tier::Thorough => {
                        for l2 in 0..NLETTERS {
                            v.push(Case::Dfs { root, prefix: vec![l, l2], depth: 4 });
                        }
                    }
                }
            }
        }
        v
    }
    fn strategy(_tier: Tier) -> BoxedStrategy<Case> {
        let call = (prop_oneof![2 => Just(0u32), 3 => 1u32..=8, 2 => 1u32..=400, 2 => Just(u32::MAX)], prop_oneof![1 => Just(0u32), 3 => 1u32..=8, 2 => 1u32..=600, 2 => Just(1u32 << 16)], prop_oneof![8 => Just(0u8), 1 => Just(1u8), 2 => Just(2u8), 1 => Just(3u8), 3 => Just(4u8), 1 => Just(5u8)]).prop_map(|(take, out, flush)| Call { take, out, flush });
        let input = prop_oneof![2 => valid_src(false).prop_map(|src| AnyInput { src, muts: vec![] }), 1 => any_input()];
        let rnd = (input, proptest::collection::vec(any::<u8>(), 0..6), proptest::collection::vec(call, 1..200)).prop_map(|(input, tail, calls)| Case::Random { input, tail, calls });
        let drv = (valid_src(false), proptest::collection::vec(prop_oneof![0u32..=3, 1u32..=50, 1u32..=5000], 0..12), proptest::collection::vec(prop_oneof![1u32..=3, 1u32..=100, Just(1u32 << 16)], 1..5), proptest::sample::select(vec![0u8, 1, 2, 5]), any::<bool>()).prop_map(|(src, chunks, outs, mid, finish)| Case::Driver { src, chunks, outs, mid, finish });
        prop_oneof![3 => rnd, 2 => drv].boxed()
    }
    fn check(case: &Case, cx: &mut Ctx) -> Check {
        match case {
            Case::Dfs { root, prefix, depth } => {
                let rs = roots();
                let (data, zl, name) = &rs[*root as usize % rs.len()];
                let t = truth(data, *zl);
                let mut st = InflateState::new_boxed(fmt_of(*zl));
                let mut m = Model { nothing_pending: true, ..Default::default() };
                let mut path = Vec::new();
                for &l in prefix {
                    path.push(l);
                    step(&mut st, &mut m, &t, letter(l), cx).map_err(|mut v| {
                        v.msg = format!("{} [stream '{name}', path {:?}]", v.msg, path.iter().map(|&i| letter(i)).collect::<Vec<_>>());
                        v
                    })?;
                }
                cx.nontrivial();
                cx.class(&format!("dfs-root:{name}"));
                dfs(&st, &m, &t, depth.saturating_sub(prefix.len() as u8), cx, &mut path).map_err(|mut v| {
                    v.msg = format!("{} [stream '{name}']", v.msg);
                    v
                })
            }
            Case::Random { input, tail, calls } => {
                let Some((mut data, zl)) = input.bytes(cx) else { return Ok(()) };
                data.extend_from_slice(tail);
                let t = truth(&data, zl);
                if t.verdict == Verdict::TooBig {
                    return Ok(());
                }
                cx.class(&format!("stream-class:{}", match &t.verdict { Verdict::Valid => if t.enc < data.len() { "valid+trailing" } else { "valid" }, Verdict::Incomplete => "truncated", Verdict::Invalid(crate::oracle::inflate::Rule::Adler) => "bad-checksum", Verdict::Invalid(_) => "corrupt", _ => "?" }));
                let mut st = InflateState::new_boxed(fmt_of(zl));
                let mut m = Model { nothing_pending: true, ..Default::default() };
                for c in calls {
                    step(&mut st, &mut m, &t, *c, cx)?;
                }
                if calls.len() >= 3 && (m.had_pending_return || m.finish_could_not) {
                    cx.nontrivial();
                }
                if m.ended {
                    cx.class("history:reached-stream-end");
                }
                if m.data_err {
                    cx.class("history:data-error");
                }
                if m.dead {
                    cx.class("history:first-call-finish-shortcut-failed");
                }
                Ok(())
            }
            Case::Driver { src, chunks, outs, mid, finish } => {
                let Some(tr) = realize(src, cx) else { return Ok(()) };
                if !tr.valid() {
                    return Ok(());
                }
                let mut st = InflateState::new_boxed(fmt_of(tr.zlib));
                let mut ch = chunks.clone();
                if *finish && (ch.is_empty() || ch[0] as usize >= tr.bytes.len()) {
                    if tr.bytes.len() < 2 {
                        return Ok(());
                    }
                    ch.insert(0, (tr.bytes.len() / 2) as u32);
                }
                // inflate_loop_driver enforces the |in| + |out| + c call bound
                let r = inflate_loop_driver(&mut st, &tr.bytes, &ch, outs, mzflush(*mid), *finish)?;
                vensure!(r.status == Ok(MZStatus::StreamEnd) && r.out == tr.plain() && r.consumed == tr.enc_len(), "c13:driver-loop-incomplete", "usual driver loop (mid flush {mid}, finish {finish}): {:?} after {} calls with {} of {} bytes", r.status, r.calls, r.out.len(), tr.plain().len());
                cx.evals(r.calls);
                cx.class("driver-loop");
                if r.calls >= 3 {
                    cx.nontrivial();
                }
                Ok(())
            }
        }
    }
}
