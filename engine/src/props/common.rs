//! Stream sources shared by the decoder properties: grammar, the crate's own compressor,
//! system zlib, repository files. Each yields (bytes, plaintext) with the reference inflater as
//! the arbiter of validity.

use crate::gen::config::{config_w15, schedule, Config, Schedule};
use crate::gen::data::{recipe, Recipe};
use crate::gen::stream as gs;
use crate::oracle::inflate::{inflate, Inflated, Opts, Verdict};
use crate::oracle::streamgen::{build, StreamRecipe};
use crate::oracle::zlibffi;
use crate::runner::Ctx;
use crate::sut::comp::{drive_compress, Driver};
use crate::sut::dec::DecSched;
use proptest::prelude::*;
use serde::{Deserialize, Serialize};

#[derive(Clone, Debug, Serialize, Deserialize)]
pub enum Src {
    Grammar(StreamRecipe),
    /// output of the crate's compressor
    Crate { data: Recipe, cfg: Config, sched: Schedule },
    /// output of system zlib (foreign valid stream)
    Zlib { data: Recipe, level: i8, wbits: u8, mem: u8, strategy: u8, zlib: bool, flushes: Vec<(u32, u8)> },
    /// a file from the repository's test data (index into REPO_FILES)
    File(u8),
    /// literal bytes
    Bytes { bytes: Vec<u8>, zlib: bool },
}

pub const REPO_FILES: [(&str, bool); 4] = [
    ("/repo/miniz_oxide/tests/test_data/numbers.deflate", false),
    ("/repo/miniz_oxide/tests/test_data/issue_14.zlib", true),
    ("/repo/miniz_oxide/tests/test_data/issue_19.deflate", false),
    ("/repo/miniz_oxide/tests/test_data/write_len_bytes_to_end", false),
];

pub struct Truth {
    pub bytes: Vec<u8>,
    pub zlib: bool,
    pub r: Inflated,
    pub source: &'static str,
}

impl Truth {
    pub fn valid(&self) -> bool {
        self.r.verdict == Verdict::Valid
    }
    pub fn plain(&self) -> &[u8] {
        &self.r.out
    }
    pub fn enc_len(&self) -> usize {
        self.r.consumed
    }
}

/// Produce the stream bytes of a source and the reference verdict on them. `None` when the
/// source is unavailable (zlib missing, file missing) or when the oracles disagree about a stream
/// that should be valid by construction (counted in the `oracle_disagreement` class).
pub fn realize(src: &Src, cx: &mut Ctx) -> Option<Truth> {
    match src {
        Src::Grammar(rec) => {
            let b = build(rec);
            let zl = rec.zlib.is_some();
            let r = inflate(&b.bytes, &Opts::fmt(zl));
            if rec.directive.is_none() || b.directive_applied.is_none() {
                if r.verdict != Verdict::Valid || r.out != b.plain || r.consumed != b.enc_len {
                    cx.class("oracle_disagreement:grammar-vs-reference");
                    return None;
                }
            }
            Some(Truth { bytes: b.bytes, zlib: zl, r, source: "grammar" })
        }
        Src::Crate { data, cfg, sched } => {
            let plain = data.expand();
            let mut c = cfg.make();
            let run = match drive_compress(&mut c, &plain, sched, Driver::Buf) {
                Ok(r) => r,
                Err(_) => {
                    cx.class("source:crate-compressor-failed(C02's business)");
                    return None;
                }
            };
            let zl = cfg.is_zlib();
            let r = inflate(&run.out, &Opts::fmt(zl));
            if r.verdict != Verdict::Valid || r.out != plain {
                cx.class("source:crate-compressor-output-invalid(C10's business)");
                return None;
            }
            Some(Truth { bytes: run.out, zlib: zl, r, source: "crate" })
        }
        Src::Zlib { data, level, wbits, mem, strategy, zlib, flushes } => {
            let plain = data.expand();
            let wb = (*wbits).clamp(9, 15) as i32;
            let fl: Vec<(usize, i32)> = flushes.iter().map(|&(o, f)| (o as usize % (plain.len() + 1), [1, 2, 3, 5][f as usize % 4])).collect();
            let out = zlibffi::z_deflate(&plain, (*level).clamp(-1, 9) as i32, if *zlib { wb } else { -wb }, (*mem).clamp(1, 9) as i32, (*strategy % 5) as i32, &fl)?;
            let r = inflate(&out, &Opts::fmt(*zlib));
            if r.verdict != Verdict::Valid || r.out != plain {
                cx.class("oracle_disagreement:zlib-output-vs-reference");
                return None;
            }
            Some(Truth { bytes: out, zlib: *zlib, r, source: "zlib" })
        }
        Src::File(i) => {
            let (p, zl) = REPO_FILES[*i as usize % REPO_FILES.len()];
            let bytes = std::fs::read(p).ok()?;
            let r = inflate(&bytes, &Opts::fmt(zl));
            Some(Truth { bytes, zlib: zl, r, source: "file" })
        }
        Src::Bytes { bytes, zlib } => {
            let r = inflate(bytes, &Opts::fmt(*zlib));
            Some(Truth { bytes: bytes.clone(), zlib: *zlib, r, source: "bytes" })
        }
    }
}

/// valid streams from all four sources, grammar weighted highest
pub fn valid_src(big: bool) -> BoxedStrategy<Src> {
    let (max_blocks, max_toks, stored_max, seg) = if big { (6, 400, 70000, 40000) } else { (5, 60, 3000, 3000) };
    let g = gs::stream(max_blocks, max_toks, stored_max, None, if big { 6 } else { 2 }).prop_map(Src::Grammar);
    let c = (recipe(seg, 4), config_w15(), schedule(4)).prop_map(|(data, cfg, sched)| Src::Crate { data, cfg, sched });
    let z = (recipe(seg, 4), -1i8..=9, 9u8..=15, 1u8..=9, 0u8..=4, any::<bool>(), proptest::collection::vec((any::<u32>(), 0u8..4), 0..3)).prop_map(|(data, level, wbits, mem, strategy, zlib, flushes)| Src::Zlib { data, level, wbits, mem, strategy, zlib, flushes });
    let f = (0u8..4).prop_map(Src::File);
    // big streams only: a final match that crosses a multiple of 32 KiB
    let we = window_edge_input().prop_map(|a| a.src);
    let base = if zlibffi::available() { prop_oneof![12 => g, 4 => c, 3 => z, 1 => f].boxed() } else { prop_oneof![12 => g, 6 => c, 1 => f].boxed() };
    if big {
        prop_oneof![20 => base, 1 => we].boxed()
    } else {
        base
    }
}

pub fn dec_sched() -> BoxedStrategy<DecSched> {
    let chunk = prop_oneof![3 => 0u32..=3, 3 => 1u32..=16, 2 => 1u32..=300, 1 => 1u32..=70000];
    let budget = prop_oneof![2 => 0u32..=3, 3 => 1u32..=40, 2 => 1u32..=600, 2 => 250u32..=270, 1 => 200u32..=40000, 2 => Just(u32::MAX)];
    (proptest::collection::vec(chunk, 0..10), proptest::collection::vec(budget, 0..12)).prop_map(|(chunks, budgets)| DecSched { chunks, budgets }).boxed()
}

/// classify constructs of a valid stream from its reference trace; returns whether it is
/// non-trivial by C03's rule
pub fn classify_stream(r: &Inflated, cx: &mut Ctx) -> bool {
    let mut nt = false;
    for b in &r.blocks {
        cx.class(["block:stored", "block:fixed", "block:dynamic", "block:?"][b.btype.min(3) as usize]);
        if b.max_used_code_len > 10 {
            cx.class("construct:code>10bits-used");
            nt = true;
        }
        if b.btype == 2 {
            let nl = b.lit_lens.iter().filter(|&&l| l != 0).count();
            let nd = b.dist_lens.iter().filter(|&&l| l != 0).count();
            if nl == 1 || nd == 1 {
                cx.class("construct:one-symbol-code");
                nt = true;
            }
            if nd == 0 {
                cx.class("construct:no-distance-code");
            }
            if b.rep_crossed_boundary {
                cx.class("construct:rep-crosses-lit/dist");
                nt = true;
            }
            let ml = b.lit_lens.iter().chain(b.dist_lens.iter()).copied().max().unwrap_or(0);
            cx.class(&format!("maxcodelen:{ml:02}"));
        }
        if b.btype == 0 && b.hdr_align != 0 {
            cx.class("construct:stored-at-nonzero-bit-offset");
            nt = true;
        }
        if b.out_len == 0 {
            cx.class("construct:empty-block");
            nt = true;
        }
        if b.max_len == 258 {
            cx.class("construct:len258");
            nt = true;
        }
        if b.max_dist == 32768 {
            cx.class("construct:dist32768");
            nt = true;
        }
        if b.overlap {
            cx.class("construct:overlapping-copy");
            nt = true;
        }
    }
    cx.class(&format!("final-bit-align:{}", r.blocks.last().map(|b| b.end_bit & 7).unwrap_or(0)));
    nt
}

// ---------------------------------------------------------------------------------------------
// Mutations (C04/C05/C07 and, when the mutant stays valid, C03)

#[derive(Clone, Copy, Debug, Serialize, Deserialize, PartialEq, Eq)]
pub enum Mutation {
    BitFlip { pos: u16, bit: u8 },
    ByteSet { pos: u16, val: u8 },
    Truncate { pos: u16 },
    Insert { pos: u16, val: u8 },
    Delete { pos: u16 },
    /// overwrite a few bytes with the bytes found elsewhere in the stream
    Splice { from: u16, to: u16, len: u8 },
    /// xor the last byte / one of the last four bytes (trailer edits)
    TailXor { back: u8, mask: u8 },
    /// flip a bit in the first two bytes (header edits)
    HeadXor { which: bool, mask: u8 },
}

pub fn mutate(bytes: &mut Vec<u8>, m: &Mutation) {
    let at = |sel: u16, len: usize| -> usize { ((sel as u64 * len as u64) >> 16) as usize };
    match *m {
        Mutation::BitFlip { pos, bit } => {
            if !bytes.is_empty() {
                let p = at(pos, bytes.len());
                bytes[p] ^= 1 << (bit & 7);
            }
        }
        Mutation::ByteSet { pos, val } => {
            if !bytes.is_empty() {
                let p = at(pos, bytes.len());
                bytes[p] = val;
            }
        }
        Mutation::Truncate { pos } => {
            let p = at(pos, bytes.len() + 1);
            bytes.truncate(p);
        }
        Mutation::Insert { pos, val } => {
            let p = at(pos, bytes.len() + 1);
            bytes.insert(p, val);
        }
        Mutation::Delete { pos } => {
            if !bytes.is_empty() {
                let p = at(pos, bytes.len());
                bytes.remove(p);
            }
        }
        Mutation::Splice { from, to, len } => {
            if !bytes.is_empty() {
                let f = at(from, bytes.len());
                let t = at(to, bytes.len());
                for i in 0..len as usize {
                    if f + i < bytes.len() && t + i < bytes.len() {
                        bytes[t + i] = bytes[f + i];
                    }
                }
            }
        }
        Mutation::TailXor { back, mask } => {
            let b = (back % 6) as usize;
            if bytes.len() > b {
                let p = bytes.len() - 1 - b;
                bytes[p] ^= mask | 1;
            }
        }
        Mutation::HeadXor { which, mask } => {
            let p = which as usize;
            if bytes.len() > p {
                bytes[p] ^= mask | 1;
            }
        }
    }
}

pub fn mutation() -> BoxedStrategy<Mutation> {
    prop_oneof![
        6 => (any::<u16>(), 0u8..8).prop_map(|(pos, bit)| Mutation::BitFlip { pos, bit }),
        3 => (any::<u16>(), any::<u8>()).prop_map(|(pos, val)| Mutation::ByteSet { pos, val }),
        2 => any::<u16>().prop_map(|pos| Mutation::Truncate { pos }),
        2 => (any::<u16>(), any::<u8>()).prop_map(|(pos, val)| Mutation::Insert { pos, val }),
        2 => any::<u16>().prop_map(|pos| Mutation::Delete { pos }),
        1 => (any::<u16>(), any::<u16>(), 1u8..12).prop_map(|(from, to, len)| Mutation::Splice { from, to, len }),
        2 => (any::<u8>(), any::<u8>()).prop_map(|(back, mask)| Mutation::TailXor { back, mask }),
        1 => (any::<bool>(), any::<u8>()).prop_map(|(which, mask)| Mutation::HeadXor { which, mask }),
    ]
    .boxed()
}

/// any input: valid streams, directive-carrying streams, mutants, random bytes
#[derive(Clone, Debug, Serialize, Deserialize)]
pub struct AnyInput {
    pub src: Src,
    pub muts: Vec<Mutation>,
}

impl AnyInput {
    /// bytes + zlib flag (validity unknown)
    pub fn bytes(&self, cx: &mut Ctx) -> Option<(Vec<u8>, bool)> {
        // build without judging validity
        let (mut bytes, zl) = match &self.src {
            Src::Grammar(rec) => {
                let b = build(rec);
                (b.bytes, rec.zlib.is_some())
            }
            other => {
                let t = realize(other, cx)?;
                (t.bytes, t.zlib)
            }
        };
        for m in &self.muts {
            mutate(&mut bytes, m);
        }
        Some((bytes, zl))
    }
}

pub fn any_input() -> BoxedStrategy<AnyInput> {
    let dirs = gs::stream_with_directive(4, 40, 600, None).prop_map(Src::Grammar);
    let rnd = (proptest::collection::vec(any::<u8>(), 0..200), any::<bool>()).prop_map(|(bytes, zlib)| Src::Bytes { bytes, zlib });
    // random bytes behind a plausible header so they get past the first gate
    let rnd_hdr = (proptest::collection::vec(any::<u8>(), 0..120), 0u8..3, any::<bool>()).prop_map(|(mut bytes, bt, zlib)| {
        let mut v = Vec::new();
        if zlib {
            v.extend_from_slice(&[0x78, 0x9c]);
        }
        if let Some(b) = bytes.first_mut() {
            *b = (*b & !6) | (bt << 1);
        }
        v.append(&mut bytes);
        Src::Bytes { bytes: v, zlib }
    });
    prop_oneof![
        5 => dirs.prop_map(|src| AnyInput { src, muts: vec![] }),
        6 => (valid_src(false), proptest::collection::vec(mutation(), 1..4)).prop_map(|(src, muts)| AnyInput { src, muts }),
        1 => (valid_src(false), Just(vec![])).prop_map(|(src, muts)| AnyInput { src, muts }),
        1 => rnd.prop_map(|src| AnyInput { src, muts: vec![] }),
        2 => rnd_hdr.prop_map(|src| AnyInput { src, muts: vec![] }),
    ]
    .boxed()
}

/// streams whose plaintext exceeds 32 KiB (so that decoder windows wrap)
pub fn big_output_input() -> BoxedStrategy<AnyInput> {
    gs::stream(3, 300, 40000, None, 19).prop_map(|r| AnyInput { src: Src::Grammar(r), muts: vec![] }).boxed()
}

/// valid streams whose *last* token is a match that carries the output across a multiple of 32 KiB
/// (the streaming wrapper's window end): when the window fills, all input has already been consumed
pub fn window_edge_input() -> BoxedStrategy<AnyInput> {
    (1u32..=3, 1u32..=257, any::<u64>(), any::<u16>(), proptest::option::of((7u8..=7, 0u8..=3)), 0u32..=3)
        .prop_map(|(k, j, seed, dsel, zlib, tail_lits)| {
            use crate::oracle::streamgen::{Block, Bytes, GTok, StreamRecipe};
            let total = k * 32768 - j - tail_lits.min(j.saturating_sub(1));
            let mut blocks = Vec::new();
            let mut left = total;
            while left > 0 {
                let n = left.min(60_000);
                blocks.push(Block::Stored { data: Bytes::Rand { n, seed: seed ^ left as u64 }, pad: 0 });
                left -= n;
            }
            // a few literals, then one match of at least j+1 bytes: it starts before the window end and ends after it
            let mut toks: Vec<GTok> = (0..tail_lits.min(j.saturating_sub(1))).map(|i| GTok::Lit(i as u8)).collect();
            toks.push(GTok::Match { len: (j + 1).clamp(3, 258) as u16, dsel, alt258: false });
            blocks.push(Block::Fixed { toks });
            AnyInput { src: Src::Grammar(StreamRecipe { zlib, blocks, directive: None }), muts: vec![] }
        })
        .boxed()
}

/// raw streams with a back-reference that reaches before the start of the output (accepted by a
/// ring decoder, which then reads whatever the window holds)
pub fn prestart_input() -> BoxedStrategy<AnyInput> {
    (gs::stream(3, 20, 100, Some(false), 1), any::<u16>(), any::<u16>())
        .prop_map(|(mut r, block, pos)| {
            use crate::oracle::streamgen::{Block, DKind, Directive, GTok};
            if !r.blocks.iter().any(|b| matches!(b, Block::Fixed { .. } | Block::Dynamic { .. })) {
                r.blocks.push(Block::Fixed { toks: vec![GTok::Lit(1), GTok::Lit(2)] });
            }
            r.directive = Some(Directive { kind: DKind::DistTooFar, block, pos });
            AnyInput { src: Src::Grammar(r), muts: vec![] }
        })
        .boxed()
}
