//! C09: zlib framing is produced correctly and verified on decode.

use super::common::*;
use crate::gen::config::{config, schedule, Config, Schedule};
use crate::gen::data::{recipe, Recipe};
use crate::oracle::streamgen::{build, Block, Bytes, GTok, StreamRecipe};
use crate::oracle::sums::adler32_ref;
use crate::runner::*;
use crate::sut::comp::{drive_compress, Driver};
use crate::sut::dec::*;
use crate::sut::*;
use crate::vensure;
use miniz_oxide::inflate::decompress_to_vec_zlib;
use miniz_oxide::inflate::stream::InflateState;
use miniz_oxide::{DataFormat, MZError, MZFlush, MZStatus};
use proptest::prelude::*;
use serde::{Deserialize, Serialize};

#[derive(Clone, Debug, Serialize, Deserialize)]
pub enum Case {
    /// all 256 FLG values for this CMF, flat + rings 2^0..2^16
    Headers { cmf: u8 },
    Emit { data: Recipe, cfg: Config, sched: Schedule, driver: Driver },
    Trailer { src: Src, edit: TrailerEdit, sched: DecSched, ring: Option<(u8, u32, u64)> },
}

#[derive(Clone, Debug, Serialize, Deserialize)]
pub enum TrailerEdit {
    FlipBit(u8),
    Random(u32),
    /// change a literal byte inside a stored block (deflate data stays valid, plaintext changes)
    BodyLiteral { sel: u16, xor: u8 },
    None,
}

pub struct P;

fn body() -> (Vec<u8>, Vec<u8>) {
    let r = StreamRecipe { zlib: None, blocks: vec![Block::Fixed { toks: b"abc".iter().map(|&b| GTok::Lit(b)).collect() }, Block::Stored { data: Bytes::Raw(b"de".to_vec()), pad: 0 }], directive: None };
    let b = build(&r);
    (b.bytes, b.plain)
}

impl Prop for P {
    const ID: &'static str = "C09";
    type Case = Case;
    fn meta() -> Meta {
        Meta {
            level: "exploration",
            rule: "(accept) ALL 65536 two-byte headers in front of a fixed valid body + correct trailer, decoded flat, in rings of 2^0..2^16 bytes, through decompress_to_vec_zlib and inflate(): accepted iff CM=8, CINFO<=7, FDICT=0, FCHECK ok and (ring mode) 2^(CINFO+8) <= ring — exhaustive; (emit) generated configuration (incl. hand-composed flag words without the compute-checksum bit, and compressors born raw and switched to zlib with set_format_and_level) x schedule x driver in zlib format: header rules, exactly one header, last four bytes == big-endian definitional Adler-32 of all input; (trailer) valid zlib streams from 4 sources with every kind of trailer/body corruption (single-bit flips, random trailers, literal edits inside stored blocks) under chunkings, output budgets, rings that wrap and zero-length calls: checksum-mismatch unless the caller asked to ignore the checksum. Non-trivial: (accept) header passes CM/FDICT so FCHECK/window rules decide; (emit) >= 1 input byte and >= 2 calls; (trailer) output >= 5553 bytes or >= 3 calls or a ring wrap; distinct by fingerprint",
            assumptions: &["adler32_ref (two sums mod 65521 after every byte) is the definition; compared with zlib's in the self-check"],
            dbg: false,
            simd: false,
            exhaustive: Some("all 65536 zlib headers x {flat, ring 2^0..2^16, decompress_to_vec_zlib, inflate()}"),
        }
    }
    fn cases(tier: Tier) -> u64 {
        tier.pick(400_000, 4_000_000)
    }
    fn fixed_cases(_tier: Tier) -> Vec<Case> {
        (0..=255u8).map(|cmf| Case::Headers { cmf }).collect()
    }
    fn strategy(tier: Tier) -> BoxedStrategy<Case> {
        let data = prop_oneof![6 => recipe(3000, 4), 3 => recipe(tier.pick(40_000, 200_000), 3)];
        let emit = (data, config(), schedule(5), prop_oneof![Just(Driver::Buf), Just(Driver::Callback), Just(Driver::Stream)]).prop_map(|(data, mut cfg, sched, driver)| {
            cfg.zlib = true;
            Case::Emit { data, cfg, sched, driver }
        });
        let edit = prop_oneof![4 => (0u8..32).prop_map(TrailerEdit::FlipBit), 2 => any::<u32>().prop_map(TrailerEdit::Random), 2 => (any::<u16>(), 1u8..=255).prop_map(|(sel, xor)| TrailerEdit::BodyLiteral { sel, xor }), 1 => Just(TrailerEdit::None)];
        let ring = prop_oneof![2 => Just(None), 2 => (Just(15u8), any::<u32>(), any::<u64>()).prop_map(Some), 1 => (15u8..=16, any::<u32>(), any::<u64>()).prop_map(Some)];
        let tr = (prop_oneof![3 => valid_src(false), 2 => valid_src(true)], edit, dec_sched(), ring).prop_map(|(src, edit, sched, ring)| Case::Trailer { src, edit, sched, ring });
        prop_oneof![1 => emit, 1 => tr].boxed()
    }
    fn check(case: &Case, cx: &mut Ctx) -> Check {
        match case {
            Case::Headers { cmf } => headers(*cmf, cx),
            Case::Emit { data, cfg, sched, driver } => {
                let x = data.expand();
                // one case in four: the compressor is born raw and switched to zlib before any data
                let switched = sched.finish_out.first().map(|v| v % 4 == 0).unwrap_or(false);
                let mut c = if switched { cfg.make_born_raw_then_zlib() } else { cfg.make() };
                if !cfg.is_zlib() {
                    return Ok(());
                }
                if switched {
                    cx.class("emit:born-raw-switched-to-zlib");
                }
                vensure!(c.data_format() != miniz_oxide::DataFormat::Raw, "c09:data_format-getter", "a compressor configured for zlib reports data_format() = Raw ({cfg:?}, born raw: {switched})");
                let run = drive_compress(&mut c, &x, sched, *driver)?;
                let o = &run.out;
                vensure!(o.len() >= 6, "c09:emit-too-short", "zlib output of {} bytes", o.len());
                let (cmf, flg) = (o[0] as u32, o[1] as u32);
                vensure!(cmf & 15 == 8, "c09:emit-cm", "CM = {} ({cfg:?})", cmf & 15);
                vensure!(cmf >> 4 <= 7, "c09:emit-cinfo", "CINFO = {}", cmf >> 4);
                vensure!(flg & 0x20 == 0, "c09:emit-fdict", "FDICT set");
                vensure!((cmf * 256 + flg) % 31 == 0, "c09:emit-fcheck", "header {cmf:#x} {flg:#x} is not a multiple of 31");
                let want = adler32_ref(1, &x);
                let got = u32::from_be_bytes(o[o.len() - 4..].try_into().unwrap());
                vensure!(got == want, "c09:emit-trailer", "last four bytes {got:#010x}, Adler-32 of the {} input bytes is {want:#010x} ({cfg:?}, driver {driver:?})", x.len());
                // exactly one header: the reference inflater must see header + deflate data + trailer and nothing else
                let r = crate::oracle::inflate::inflate(o, &crate::oracle::inflate::Opts::zlib());
                vensure!(r.is_valid() && r.consumed == o.len() && r.out == x, "c09:emit-structure", "output is not header + one deflate stream + trailer: {:?}", r.verdict);
                if !x.is_empty() && run.calls >= 2 {
                    cx.nontrivial();
                }
                if sched.steps.first().map(|s| s.flush != 0 && s.in_take == 0).unwrap_or(false) {
                    cx.class("emit:first-action-is-a-flush-without-input");
                }
                cx.class("emit");
                Ok(())
            }
            Case::Trailer { src, edit, sched, ring } => trailer(src, edit, sched, *ring, cx),
        }
    }
}

fn headers(cmf: u8, cx: &mut Ctx) -> Check {
    let (body, plain) = body();
    let adler = adler32_ref(1, &plain);
    let empty = DecSched::default();
    for flg in 0..=255u8 {
        let mut s = vec![cmf, flg];
        s.extend_from_slice(&body);
        s.extend_from_slice(&adler.to_be_bytes());
        let cm_ok = cmf & 15 == 8;
        let cinfo = (cmf >> 4) as u32;
        let rules = cm_ok && cinfo <= 7 && flg & 0x20 == 0 && (cmf as u32 * 256 + flg as u32) % 31 == 0;
        if cm_ok && flg & 0x20 == 0 {
            cx.sub_nontrivial(((cmf as u64) << 8) | flg as u64);
        }
        // flat
        let r = flat_oneshot(&s, TINFL_FLAG_PARSE_ZLIB_HEADER, plain.len())?;
        let acc = r.status == TINFLStatus::Done;
        vensure!(acc == rules, if rules { "c09:valid-header-rejected" } else { "c09:invalid-header-accepted" }, "flat: header {cmf:#04x} {flg:#04x}: decoder says {}, RFC 1950 rules say {}", status_name(r.status), if rules { "valid" } else { "invalid" });
        if acc {
            vensure!(r.out == plain, "c09:header-output", "wrong output");
        } else {
            vensure!(r.status == TINFLStatus::Failed, "c09:invalid-header-status", "header {cmf:#04x} {flg:#04x}: status {}", status_name(r.status));
        }
        // the ignore-checksum option only skips the trailer comparison: same verdict on the header
        let ri = flat_oneshot(&s, TINFL_FLAG_PARSE_ZLIB_HEADER | TINFL_FLAG_IGNORE_ADLER32, plain.len())?;
        vensure!((ri.status == TINFLStatus::Done) == rules, if rules { "c09:valid-header-rejected" } else { "c09:invalid-header-accepted" }, "flat, IGNORE_ADLER32: header {cmf:#04x} {flg:#04x}: decoder says {}, RFC 1950 rules say {}", status_name(ri.status), if rules { "valid" } else { "invalid" });
        // rings
        for bits in 0..=16u8 {
            let want = rules && (1u32 << (cinfo + 8)) <= (1u32 << bits);
            let mut d = DecompressorOxide::new();
            let r = drive(&mut d, &s, &DriveOpts { flags: TINFL_FLAG_PARSE_ZLIB_HEADER, mode: BufMode::Ring { bits, start: 0, fill_seed: 3 }, sched: &empty, canary: false, max_calls: None, announce: true, flat_start: 0, probe_full_ring: false }, plain_hook)?;
            let acc = r.status == TINFLStatus::Done;
            vensure!(acc == want, if want { "c09:valid-header-rejected" } else { "c09:invalid-header-accepted" }, "ring 2^{bits}: header {cmf:#04x} {flg:#04x} (window 2^{}): decoder says {}, expected {}", cinfo + 8, status_name(r.status), if want { "accept" } else { "reject" });
            if acc {
                vensure!(r.out == plain, "c09:header-output", "wrong output in ring 2^{bits}");
            }
        }
        // vector function and inflate()
        let v = guard(|| decompress_to_vec_zlib(&s)).map_err(|pm| Violation::new(panic_sig("to_vec_zlib", &pm), format!("panic: {pm}")))?;
        vensure!(v.is_ok() == rules, if rules { "c09:valid-header-rejected" } else { "c09:invalid-header-accepted" }, "decompress_to_vec_zlib: header {cmf:#04x} {flg:#04x}: {:?}", v.as_ref().map(|o| o.len()).map_err(|e| e.status));
        let mut st = InflateState::new_boxed(DataFormat::Zlib);
        let r = inflate_loop_driver(&mut st, &s, &[1], &[64], MZFlush::None, false)?;
        vensure!((r.status == Ok(MZStatus::StreamEnd)) == rules, if rules { "c09:valid-header-rejected" } else { "c09:invalid-header-accepted" }, "inflate(): header {cmf:#04x} {flg:#04x}: {:?}", r.status);
        if !rules {
            vensure!(r.status == Err(MZError::Data), "c09:invalid-header-status", "inflate(): {:?}", r.status);
        }
        cx.evals(20);
    }
    cx.nontrivial();
    Ok(())
}

fn trailer(src: &Src, edit: &TrailerEdit, sched: &DecSched, ring: Option<(u8, u32, u64)>, cx: &mut Ctx) -> Check {
    let Some(t) = realize(src, cx) else { return Ok(()) };
    if !t.valid() {
        return Ok(());
    }
    // make it a zlib stream if it is raw: wrap with a correct header/trailer
    let (mut s, plain) = if t.zlib {
        (t.bytes.clone(), t.plain().to_vec())
    } else {
        let mut s = vec![0x78, 0x9c];
        s.extend_from_slice(&t.bytes);
        s.extend_from_slice(&adler32_ref(1, t.plain()).to_be_bytes());
        (s, t.plain().to_vec())
    };
    let n = s.len();
    let mut expect_plain = plain.clone();
    let mut corrupted = true;
    match edit {
        TrailerEdit::FlipBit(b) => s[n - 4 + (*b as usize / 8)] ^= 1 << (b % 8),
        TrailerEdit::Random(v) => {
            let good = u32::from_be_bytes(s[n - 4..].try_into().unwrap());
            let v = if *v == good { v ^ 1 } else { *v };
            s[n - 4..].copy_from_slice(&v.to_be_bytes());
        }
        TrailerEdit::BodyLiteral { sel, xor } => {
            // find a stored block with payload via the reference trace
            let r = crate::oracle::inflate::inflate(&s, &crate::oracle::inflate::Opts::zlib());
            let stored: Vec<_> = r.blocks.iter().filter(|b| b.btype == 0 && b.stored_len > 0).collect();
            if stored.is_empty() {
                cx.class("trailer:no-stored-literal-to-edit");
                return Ok(());
            }
            let b = stored[*sel as usize % stored.len()];
            let off = *sel as usize % b.stored_len;
            let byte_pos = b.end_bit / 8 - b.stored_len + off;
            s[byte_pos] ^= *xor;
            // later matches may copy the edited byte: take the new plaintext from the reference inflater
            let r2 = crate::oracle::inflate::inflate(&s, &crate::oracle::inflate::Opts { ignore_adler: true, ..crate::oracle::inflate::Opts::zlib() });
            if !r2.is_valid() {
                return Ok(());
            }
            expect_plain = r2.out;
            if adler32_ref(1, &expect_plain) == u32::from_be_bytes(s[n - 4..].try_into().unwrap()) {
                // (cannot happen for a single-byte change unless copies cancel out; then it is not a corruption)
                corrupted = false;
            }
        }
        TrailerEdit::None => corrupted = false,
    }
    let zf = TINFL_FLAG_PARSE_ZLIB_HEADER;
    let mode = match ring {
        None => BufMode::Flat { cap: plain.len() + 1 },
        Some((bits, start, fill)) => BufMode::Ring { bits, start, fill_seed: fill },
    };
    let mut d = DecompressorOxide::new();
    let r = drive(&mut d, &s, &DriveOpts { flags: zf, mode, sched, canary: false, max_calls: None, announce: true, flat_start: 0, probe_full_ring: false }, plain_hook)?;
    if corrupted {
        vensure!(r.status == TINFLStatus::Adler32Mismatch, "c09:bad-trailer-not-reported", "corrupted trailer/body ({edit:?}): status {} ({:?})", status_name(r.status), mode);
        // and completion must not be reported by a further call on the same decoder either
        let mut b = [0u8; 16];
        let (st2, _, w2) = guard(|| decompress(&mut d, &s[n..], &mut b, 0, zf | TINFL_FLAG_USING_NON_WRAPPING_OUTPUT_BUF)).map_err(|pm| Violation::new(panic_sig("decompress", &pm), format!("panic: {pm}")))?;
        vensure!(st2 != TINFLStatus::Done && w2 == 0, "c09:completion-reported-after-mismatch", "a further call after Adler32Mismatch returned {} ({edit:?})", status_name(st2));
    } else {
        vensure!(r.status == TINFLStatus::Done, "c09:good-trailer-rejected", "status {}", status_name(r.status));
    }
    vensure!(r.out == expect_plain, "c09:trailer-output", "output differs");
    vensure!(d.adler32_header() == Some(u32::from_be_bytes(s[n - 4..].try_into().unwrap())), "c09:adler32_header", "adler32_header() = {:?}", d.adler32_header());
    // ignoring the checksum
    let mut d = DecompressorOxide::new();
    let r2 = drive(&mut d, &s, &DriveOpts { flags: zf | TINFL_FLAG_IGNORE_ADLER32, mode, sched, canary: false, max_calls: None, announce: true, flat_start: 0, probe_full_ring: false }, plain_hook)?;
    vensure!(r2.status == TINFLStatus::Done && r2.out == expect_plain, "c09:ignore-flag-not-honoured", "with TINFL_FLAG_IGNORE_ADLER32: status {}", status_name(r2.status));
    // vector function and inflate()
    let v = guard(|| decompress_to_vec_zlib(&s)).map_err(|pm| Violation::new(panic_sig("to_vec_zlib", &pm), format!("panic: {pm}")))?;
    match (&v, corrupted) {
        (Ok(o), false) => vensure!(*o == expect_plain, "c09:trailer-output", "vec output differs"),
        (Err(e), true) => vensure!(e.status == TINFLStatus::Adler32Mismatch, "c09:bad-trailer-not-reported", "decompress_to_vec_zlib: {:?}", e.status),
        (Ok(_), true) => return Err(Violation::new("c09:bad-trailer-not-reported", format!("decompress_to_vec_zlib accepted a stream with a wrong checksum ({edit:?})"))),
        (Err(e), false) => return Err(Violation::new("c09:good-trailer-rejected", format!("{:?}", e.status))),
    }
    // slice-iterator helper: one slice and several slices must give the same verdict
    {
        let mut cuts: Vec<usize> = sched.chunks.iter().scan(0usize, |acc, &c| { *acc = (*acc + c as usize).min(s.len()); Some(*acc) }).collect();
        cuts.dedup();
        let mut slices: Vec<&[u8]> = Vec::new();
        let mut p = 0;
        for c in cuts {
            slices.push(&s[p..c]);
            p = c;
        }
        slices.push(&s[p..]);
        for (ignore, must_fail) in [(false, corrupted), (true, false)] {
            let mut out = vec![0u8; expect_plain.len() + 1];
            let r = guard(|| miniz_oxide::inflate::decompress_slice_iter_to_slice(&mut out, slices.iter().copied(), true, ignore)).map_err(|pm| Violation::new(panic_sig("slice_iter", &pm), format!("panic: {pm}")))?;
            if must_fail {
                vensure!(r == Err(TINFLStatus::Adler32Mismatch), "c09:bad-trailer-not-reported", "decompress_slice_iter_to_slice over {} slices with a corrupted trailer/body ({edit:?}): {:?}", slices.len(), r);
            } else {
                vensure!(r == Ok(expect_plain.len()) && out[..expect_plain.len()] == expect_plain[..], "c09:ignore-flag-not-honoured", "decompress_slice_iter_to_slice (ignore_adler32 = {ignore}) over {} slices: {:?}", slices.len(), r);
            }
        }
    }
    for (fmt, must_fail) in [(DataFormat::Zlib, corrupted), (DataFormat::ZLibIgnoreChecksum, false)] {
        let mut st = InflateState::new_boxed(fmt);
        let r = inflate_loop_driver(&mut st, &s, &sched.chunks, &[300, 1, 70000], MZFlush::None, false)?;
        if must_fail {
            vensure!(r.status == Err(MZError::Data), "c09:bad-trailer-not-reported", "inflate({fmt:?}): {:?}", r.status);
        } else {
            vensure!(r.status == Ok(MZStatus::StreamEnd) && r.out == expect_plain, "c09:ignore-flag-not-honoured", "inflate({fmt:?}): {:?}", r.status);
        }
    }
    cx.evals(5);
    let wrapped = matches!(mode, BufMode::Ring { bits, .. } if plain.len() > (1usize << bits));
    if plain.len() >= 5553 || r.calls >= 3 || wrapped {
        cx.nontrivial();
    }
    cx.class(&format!("trailer-edit:{}", format!("{edit:?}").split(['(', ' ', '{']).next().unwrap_or("")));
    if wrapped {
        cx.class("trailer:ring-wrapped");
    }
    Ok(())
}
