//! C05: decoding arbitrary bytes is total: no panic, no hang, counters within bounds, BadParam
//! exactly for unusable geometry and without touching state, failure sticky until init().

use super::common::*;
use crate::runner::*;
use crate::sut::dec::mzflush;
use crate::sut::*;
use crate::vensure;
use miniz_oxide::inflate::stream::{inflate, InflateState};
use miniz_oxide::inflate::{decompress_slice_iter_to_slice, decompress_to_vec_with_limit, decompress_to_vec_zlib_with_limit};
use miniz_oxide::DataFormat;
use proptest::prelude::*;
use serde::{Deserialize, Serialize};

#[derive(Clone, Debug, Serialize, Deserialize)]
pub enum Op {
    Call { take: u32, flags: u32, len_sel: u8, pos_sel: u32, budget: Option<u32> },
    Init,
    CloneSwap,
    SerdeRmp,
    SerdeJson,
    /// move the input cursor (offer other bytes than "the rest")
    Seek { sel: u16 },
    /// switch to the second input
    SwitchInput,
}

#[derive(Clone, Debug, Serialize, Deserialize)]
pub enum Case {
    History { input: AnyInput, other: Vec<u8>, ops: Vec<Op> },
    Wrappers { input: AnyInput, limit: u64, cuts: Vec<u32>, out_len: u32, zlib: bool, ignore: bool, icalls: Vec<(u32, u32, u8)>, fmt: u8 },
}

pub struct P;

pub const LENS: [usize; 16] = [0, 1, 2, 3, 5, 8, 100, 255, 256, 257, 1000, 4096, 32768, 32769, 65536, 12];

fn flag_word() -> BoxedStrategy<u32> {
    let defined = proptest::bits::u32::masked(1 | 2 | 4 | 8 | 64 | 128);
    prop_oneof![6 => defined.clone(), 2 => (defined, proptest::bits::u32::masked(16 | 32 | 256 | 0x8000_0000)).prop_map(|(a, b)| a | b), 1 => any::<u32>()].boxed()
}

fn op() -> BoxedStrategy<Op> {
    let call = (prop_oneof![2 => 0u32..=3, 3 => 1u32..=40, 2 => 1u32..=3000, 3 => Just(u32::MAX)], flag_word(), 0u8..16, any::<u32>(), prop_oneof![3 => Just(None), 2 => (0u32..=300).prop_map(Some), 1 => any::<u32>().prop_map(Some)]).prop_map(|(take, flags, len_sel, pos_sel, budget)| Op::Call { take, flags, len_sel, pos_sel, budget });
    prop_oneof![20 => call, 1 => Just(Op::Init), 1 => Just(Op::CloneSwap), 1 => Just(Op::SerdeRmp), 1 => Just(Op::SerdeJson), 1 => any::<u16>().prop_map(|sel| Op::Seek { sel }), 1 => Just(Op::SwitchInput)].boxed()
}

/// keep the same flags/geometry as the previous call most of the time, so that suspended states are
/// resumed "normally" and get far; the strategy perturbs them on top of that
fn ops() -> BoxedStrategy<Vec<Op>> {
    (proptest::collection::vec((op(), proptest::bool::weighted(0.55)), 1..24)).prop_map(|v| {
        let mut out: Vec<Op> = Vec::new();
        let mut last: Option<(u32, u8)> = None;
        for (o, sticky) in v {
            match o {
                Op::Call { take, flags, len_sel, pos_sel, budget } => {
                    let (f, l) = match (sticky, last) {
                        (true, Some((f, l))) => (f, l),
                        _ => (flags, len_sel),
                    };
                    last = Some((f, l));
                    out.push(Op::Call { take, flags: f, len_sel: l, pos_sel, budget });
                }
                other => out.push(other),
            }
        }
        out
    }).boxed()
}

impl Prop for P {
    const ID: &'static str = "C05";
    type Case = Case;
    fn meta() -> Meta {
        Meta {
            level: "exploration",
            rule: "call histories on ONE decoder object: each step is decompress/decompress_with_limit with input drawn from (valid streams, directive-carrying streams, mutants, random bytes; the unread rest of the previous input or any other offset), any u32 flag word (biased to the 6 defined bits plus undefined ones), output slice length from {0,1,2,3,5,8,12,100,255,256,257,1000,4096,32768,32769,65536}, out_pos in 0..=len+1, any budget; or init(); or replacing the decoder by a clone / rmp-serde / serde_json round trip. Also decompress_to_vec*_with_limit, decompress_slice_iter_to_slice and inflate() with arbitrary arguments. Release and debug-assertion builds. Oracle per call: returns (watchdog), no panic, consumed <= offered, written <= min(len-out_pos, budget), BadParam iff (ring mode and len not a power of two) or out_pos > len, then counts 0 and serialised decoder image unchanged; after Failed every usable-geometry call returns Failed/0 written until init(). Non-trivial = history with >= 2 calls where a suspended (NeedsMoreInput/HasMoreOutput) state was resumed with a different geometry or flag word; distinct by case fingerprint",
            assumptions: &["'prior decoder state reachable through the API' = reachable by decode calls, init(), clone and serialise/deserialise round trips of real decoder states (arbitrary forged serde images are not generated)"],
            dbg: true,
            simd: false,
            exhaustive: None,
        }
    }
    fn cases(tier: Tier) -> u64 {
        tier.pick(350_000, 3_500_000)
    }
    fn strategy(_tier: Tier) -> BoxedStrategy<Case> {
        let h = (any_input(), proptest::collection::vec(any::<u8>(), 0..64), ops()).prop_map(|(input, other, ops)| Case::History { input, other, ops });
        let w = (any_input(), prop_oneof![Just(0u64), 0u64..=300, Just(u64::MAX), any::<u64>()], proptest::collection::vec(any::<u32>(), 0..4), 0u32..=3000, any::<bool>(), any::<bool>(), proptest::collection::vec((0u32..=400, 0u32..=400, 0u8..=6), 0..12), 0u8..3).prop_map(|(input, limit, cuts, out_len, zlib, ignore, icalls, fmt)| Case::Wrappers { input, limit, cuts, out_len, zlib, ignore, icalls, fmt });
        prop_oneof![6 => h, 1 => w].boxed()
    }
    fn check(case: &Case, cx: &mut Ctx) -> Check {
        match case {
            Case::History { input, other, ops } => history(input, other, ops, cx),
            Case::Wrappers { input, limit, cuts, out_len, zlib, ignore, icalls, fmt } => {
                let Some((data, _)) = input.bytes(cx) else { return Ok(()) };
                let lim = (*limit).min(1 << 22) as usize;
                let r = guard(|| if *zlib { decompress_to_vec_zlib_with_limit(&data, lim) } else { decompress_to_vec_with_limit(&data, lim) }).map_err(|pm| Violation::new(panic_sig("c05:to_vec_with_limit", &pm), format!("decompress_to_vec_with_limit({lim}) panicked: {pm}")))?;
                match &r {
                    Ok(v) => vensure!(v.len() <= lim, "c05:limit-exceeded", "Ok with {} bytes > limit {lim}", v.len()),
                    Err(e) => vensure!(e.output.len() <= lim, "c05:limit-exceeded", "Err.output has {} bytes > limit {lim}", e.output.len()),
                }
                let mut cs: Vec<usize> = cuts.iter().map(|&c| c as usize % (data.len() + 1)).collect();
                cs.sort();
                let mut slices: Vec<&[u8]> = Vec::new();
                let mut p = 0;
                for c in cs {
                    slices.push(&data[p..c]);
                    p = c;
                }
                slices.push(&data[p..]);
                let mut out = vec![0x5au8; *out_len as usize];
                let r = guard(|| decompress_slice_iter_to_slice(&mut out, slices.iter().copied(), *zlib, *ignore)).map_err(|pm| Violation::new(panic_sig("c05:slice_iter", &pm), format!("decompress_slice_iter_to_slice panicked: {pm}")))?;
                if let Ok(n) = r {
                    vensure!(n <= out.len(), "c05:slice-iter-count", "Ok({n}) > out len {}", out.len());
                }
                // inflate() with arbitrary arguments
                let f = [DataFormat::Raw, DataFormat::Zlib, DataFormat::ZLibIgnoreChecksum][*fmt as usize % 3];
                let mut st = InflateState::new_boxed(f);
                let mut pos = 0usize;
                for &(take, osz, fl) in icalls {
                    let take = (take as usize).min(data.len() - pos);
                    let mut ob = vec![0u8; osz as usize];
                    let res = guard(|| inflate(&mut st, &data[pos..pos + take], &mut ob, mzflush(fl))).map_err(|pm| Violation::new(panic_sig("c05:inflate", &pm), format!("inflate() panicked: {pm} (take {take}, out {osz}, flush {fl})")))?;
                    vensure!(res.bytes_consumed <= take && res.bytes_written <= osz as usize, "c05:inflate-counts", "inflate consumed {}/{take} written {}/{osz}", res.bytes_consumed, res.bytes_written);
                    pos += res.bytes_consumed;
                }
                cx.class("wrappers");
                cx.evals(2 + icalls.len() as u64);
                Ok(())
            }
        }
    }
}

fn usable(flags: u32, len: usize, out_pos: usize) -> bool {
    let flat = flags & TINFL_FLAG_USING_NON_WRAPPING_OUTPUT_BUF != 0;
    (flat || len == 0 || len.is_power_of_two()) && out_pos <= len
}

fn history(input: &AnyInput, other: &[u8], ops: &[Op], cx: &mut Ctx) -> Check {
    let Some((main, _)) = input.bytes(cx) else { return Ok(()) };
    let mut data: &[u8] = &main;
    let mut pos = 0usize;
    let mut d = Box::new(DecompressorOxide::new());
    let mut buf: Vec<u8> = Vec::new();
    let mut failed = false;
    let mut ncalls = 0;
    // (status, flags, len, out_pos_after) of the last call
    let mut prev: Option<(TINFLStatus, u32, usize, usize)> = None;
    let mut resumed_changed = false;
    for (i, op) in ops.iter().enumerate() {
        match op {
            Op::Init => {
                d.init();
                failed = false;
                prev = None;
                cx.class("op:init");
            }
            Op::CloneSwap => {
                d = Box::new((*d).clone());
                cx.class("op:clone");
            }
            Op::SerdeRmp => {
                let b = rmp_serde::to_vec(&*d).map_err(|e| Violation::new("c05:serde", format!("rmp serialise: {e}")))?;
                d = Box::new(rmp_serde::from_slice(&b).map_err(|e| Violation::new("c05:serde", format!("rmp deserialise: {e}")))?);
                cx.class("op:serde-rmp");
            }
            Op::SerdeJson => {
                let b = serde_json::to_vec(&*d).map_err(|e| Violation::new("c05:serde", format!("json serialise: {e}")))?;
                d = Box::new(serde_json::from_slice(&b).map_err(|e| Violation::new("c05:serde", format!("json deserialise: {e}")))?);
                cx.class("op:serde-json");
            }
            Op::Seek { sel } => {
                pos = ((*sel as u64 * (data.len() as u64 + 1)) >> 16) as usize;
            }
            Op::SwitchInput => {
                data = other;
                pos = 0;
            }
            Op::Call { take, flags, len_sel, pos_sel, budget } => {
                let len = LENS[*len_sel as usize % LENS.len()];
                if buf.len() != len {
                    buf = vec![0xC3; len];
                }
                // out_pos: mostly "continue where the last call stopped", otherwise anything in 0..=len+1
                let out_pos = match (prev, pos_sel % 4) {
                    (Some((_, _, plen, pafter)), 0 | 1) if plen == len => {
                        if pafter >= len && flags & TINFL_FLAG_USING_NON_WRAPPING_OUTPUT_BUF == 0 {
                            0
                        } else {
                            pafter
                        }
                    }
                    _ => (*pos_sel as usize / 4) % (len + 2),
                };
                let take = (*take as usize).min(data.len() - pos);
                let chunk = &data[pos..pos + take];
                let ok_geom = usable(*flags, len, out_pos);
                let image_before = if !ok_geom { Some(rmp_serde::to_vec(&*d).unwrap_or_default()) } else { None };
                let state_before = d.verif_state();
                let mode = if flags & TINFL_FLAG_USING_NON_WRAPPING_OUTPUT_BUF != 0 { "flat" } else { "ring" };
                if let Some((pst, pflags, plen, pafter)) = prev {
                    if matches!(pst, TINFLStatus::NeedsMoreInput | TINFLStatus::HasMoreOutput) && ok_geom {
                        let expect_pos = if pafter >= plen && pflags & TINFL_FLAG_USING_NON_WRAPPING_OUTPUT_BUF == 0 { 0 } else { pafter };
                        let changed = (pflags & 0xcf) != (flags & 0xcf) || plen != len || out_pos != expect_pos;
                        if changed {
                            resumed_changed = true;
                            cx.class(&format!("resumed:{}:changed", state_name(state_before)));
                        }
                    }
                }
                let r = guard(|| match budget {
                    Some(b) => decompress_with_limit(&mut d, chunk, &mut buf, out_pos, *b as usize, *flags),
                    None => decompress(&mut d, chunk, &mut buf, out_pos, *flags),
                });
                let (st, c, w) = match r {
                    Ok(x) => x,
                    Err(pm) => {
                        let dist_note = if state_name(state_before) == "WriteLenBytesToEnd" { ":resumed-mid-match" } else { "" };
                        return Err(Violation::new(format!("c05:panic:{}:{mode}{dist_note}", state_name(state_before)), format!("call #{i} panicked: {pm}; resumed state {}, {} input bytes, out len {len}, out_pos {out_pos}, budget {budget:?}, flags {flags:#x}", state_name(state_before), chunk.len())));
                    }
                };
                ncalls += 1;
                cx.class(&format!("status:{}", status_name(st)));
                vensure!(c <= chunk.len(), "c05:consumed>offered", "call #{i}: consumed {c} of {}", chunk.len());
                if ok_geom {
                    let granted = (len - out_pos).min(budget.map(|b| b as usize).unwrap_or(usize::MAX));
                    vensure!(w <= granted, "c05:written>granted", "call #{i}: written {w} > granted {granted} (len {len}, out_pos {out_pos}, budget {budget:?})");
                    vensure!(st != TINFLStatus::BadParam, "c05:BadParam-on-usable-geometry", "call #{i}: BadParam for len {len} out_pos {out_pos} flags {flags:#x}");
                    if failed {
                        vensure!(st == TINFLStatus::Failed && w == 0, "c05:failure-not-sticky", "call #{i} after a Failed stream: {} with {w} bytes written (resumed state {})", status_name(st), state_name(state_before));
                    }
                    if st == TINFLStatus::Failed {
                        failed = true;
                    }
                    pos += c;
                    prev = Some((st, *flags, len, out_pos + w));
                } else {
                    vensure!(st == TINFLStatus::BadParam && c == 0 && w == 0, "c05:unusable-geometry-accepted", "call #{i}: len {len} out_pos {out_pos} flags {flags:#x} ({mode}) returned {} consumed {c} written {w}", status_name(st));
                    let after = rmp_serde::to_vec(&*d).unwrap_or_default();
                    vensure!(Some(&after) == image_before.as_ref(), "c05:BadParam-touched-state", "call #{i}: decoder image changed by a BadParam call");
                    cx.class("geometry:unusable");
                }
                cx.evals(1);
            }
        }
    }
    if ncalls >= 2 && resumed_changed {
        cx.nontrivial();
    }
    Ok(())
}
