//! C08: decoder writes only inside the granted window; status codes are truthful; limits honoured.

use super::common::*;
use crate::runner::*;
use crate::sut::dec::*;
use crate::sut::*;
use crate::{vensure, vfail};
use miniz_oxide::inflate::{decompress_to_vec_with_limit, decompress_to_vec_zlib_with_limit};
use proptest::prelude::*;
use serde::{Deserialize, Serialize};

#[derive(Clone, Debug, Serialize, Deserialize)]
pub enum Case {
    Window { input: AnyInput, ring: Option<(u8, u32, u64)>, flat_start: u32, slack: u32, sched: DecSched },
    Limits { src: Src, deltas: Vec<i64> },
}

pub struct P;

fn tight_sched() -> BoxedStrategy<DecSched> {
    // budgets concentrated on small values so that calls end inside match copies
    let chunk = prop_oneof![2 => 1u32..=16, 2 => 1u32..=300, 2 => Just(u32::MAX)];
    let budget = prop_oneof![4 => 1u32..=9, 3 => 1u32..=40, 2 => 1u32..=300, 1 => 0u32..=1, 1 => Just(u32::MAX)];
    (proptest::collection::vec(chunk, 0..8), proptest::collection::vec(budget, 0..60)).prop_map(|(chunks, budgets)| DecSched { chunks, budgets }).boxed()
}

impl Prop for P {
    const ID: &'static str = "C08";
    type Case = Case;
    fn meta() -> Meta {
        Meta {
            level: "exploration",
            rule: "streams (valid from 4 sources; directive streams, mutants, random bytes) x (slice length, start position, per-call budget) x flat/ring (2^0..2^16); the output slice is pre-filled with a keyed pseudo-random pattern and compared byte-for-byte outside [out_pos, out_pos+written) after every call; HasMoreOutput only with the granted region full, NeedsMoreInput only with all offered input consumed, driver loop bounded; produced bytes == plaintext slice for valid streams. Vector functions with limit in {0, n-1, n, n+1, 2n, huge, random}. Non-trivial = a call with budget smaller than what was still to come that stopped inside a match copy (state WriteLenBytesToEnd); distinct by case fingerprint",
            assumptions: &["reference inflater supplies the plaintext for valid streams (self-checked)"],
            dbg: true,
            simd: false,
            exhaustive: None,
        }
    }
    fn cases(tier: Tier) -> u64 {
        tier.pick(800_000, 8_000_000)
    }
    fn strategy(_tier: Tier) -> BoxedStrategy<Case> {
        let input = prop_oneof![3 => valid_src(false).prop_map(|src| AnyInput { src, muts: vec![] }), 1 => any_input()];
        let ring = prop_oneof![3 => Just(None), 2 => (Just(15u8), any::<u32>(), any::<u64>()).prop_map(Some), 2 => (0u8..=16, any::<u32>(), any::<u64>()).prop_map(Some)];
        let w = (input, ring, prop_oneof![2 => Just(0u32), 1 => 1u32..=300], prop_oneof![Just(0u32), Just(1u32), 2u32..=300], tight_sched()).prop_map(|(input, ring, flat_start, slack, sched)| Case::Window { input, ring, flat_start, slack, sched });
        let l = (valid_src(false), proptest::collection::vec(prop_oneof![-3i64..=3, -2000i64..=2000], 0..3)).prop_map(|(src, deltas)| Case::Limits { src, deltas });
        prop_oneof![5 => w, 1 => l].boxed()
    }
    fn check(case: &Case, cx: &mut Ctx) -> Check {
        match case {
            Case::Window { input, ring, flat_start, slack, sched } => {
                let Some((data, zl)) = input.bytes(cx) else { return Ok(()) };
                let v = crate::oracle::inflate::inflate(&data, &crate::oracle::inflate::Opts { max_out: 2 << 20, ..crate::oracle::inflate::Opts::fmt(zl) });
                if v.verdict == crate::oracle::inflate::Verdict::TooBig {
                    return Ok(());
                }
                let valid = v.is_valid();
                let n = v.out.len();
                // slice length: sometimes smaller than the output (then the decoder must stop at the end of the slice)
                let cap = if *slack == 0 && n > 2 { n - n / 3 } else { n + *slack as usize };
                let mode = match ring {
                    None => BufMode::Flat { cap },
                    Some((bits, start, fill)) => BufMode::Ring { bits: *bits, start: *start, fill_seed: *fill },
                };
                let mut d = DecompressorOxide::new();
                let r = drive(&mut d, &data, &DriveOpts { flags: zflags(zl), mode, sched, canary: true, max_calls: None, announce: true, flat_start: if ring.is_none() { *flat_start as usize } else { 0 }, probe_full_ring: *slack % 2 == 1 }, plain_hook)?;
                cx.evals(r.calls);
                let ring_legal = match mode {
                    BufMode::Flat { .. } => true,
                    BufMode::Ring { bits, .. } => (1usize << bits) >= v.max_dist() as usize && v.header.map(|(cmf, _)| (1usize << bits) >= 1usize << ((cmf >> 4) + 8)).unwrap_or(true),
                };
                if valid && ring_legal {
                    vensure!(r.out.len() <= n && r.out[..] == v.out[..r.out.len()], "c08:written-bytes-not-plaintext", "bytes written ({}) are not the corresponding plaintext slice", r.out.len());
                    if r.out_of_space {
                        vensure!(r.out.len() == cap, "c08:out-of-space-early", "flat slice of {cap} reported full after {} bytes", r.out.len());
                        cx.class("flat:slice-smaller-than-output");
                    } else {
                        vensure!(r.status == TINFLStatus::Done && r.out.len() == n, "c08:valid-not-finished", "status {} after {} of {n} bytes", status_name(r.status), r.out.len());
                    }
                }
                let mut mid = false;
                for (st, status) in &r.suspensions {
                    if *status == TINFLStatus::HasMoreOutput {
                        cx.class(&format!("stopped-for-output-in:{}", state_name(*st)));
                        if state_name(*st) == "WriteLenBytesToEnd" {
                            mid = true;
                        }
                    }
                }
                if mid {
                    cx.nontrivial();
                }
                cx.class(match mode {
                    BufMode::Flat { .. } => "mode:flat",
                    BufMode::Ring { .. } => "mode:ring",
                });
                cx.class(if valid { "input:valid" } else { "input:other" });
                Ok(())
            }
            Case::Limits { src, deltas } => {
                let Some(t) = realize(src, cx) else { return Ok(()) };
                if !t.valid() {
                    return Ok(());
                }
                let plain = t.plain();
                let n = plain.len();
                let mut limits: Vec<usize> = vec![0, n.saturating_sub(1), n, n + 1, 2 * n, usize::MAX];
                for d in deltas {
                    limits.push((n as i64 + d).max(0) as usize);
                }
                for lim in limits {
                    let r = guard(|| if t.zlib { decompress_to_vec_zlib_with_limit(&t.bytes, lim) } else { decompress_to_vec_with_limit(&t.bytes, lim) }).map_err(|pm| Violation::new(panic_sig("to_vec_with_limit", &pm), format!("with_limit({lim}) panicked: {pm}")))?;
                    cx.evals(1);
                    match r {
                        Ok(v) => {
                            vensure!(v.len() <= lim, "c08:limit-exceeded", "Ok with {} bytes, limit {lim}", v.len());
                            vensure!(v == plain, "c08:limit-ok-wrong-output", "Ok with wrong bytes (limit {lim}, n {n})");
                            vensure!(lim >= n, "c08:limit-ok-below-size", "Ok although limit {lim} < size {n}");
                        }
                        Err(e) => {
                            vensure!(e.output.len() <= lim, "c08:limit-exceeded", "Err.output has {} bytes, limit {lim}", e.output.len());
                            if lim >= n {
                                vfail!("c08:limit-sufficient-but-failed", "limit {lim} >= true size {n} but the call failed with {:?}", e.status);
                            }
                            vensure!(e.status == TINFLStatus::HasMoreOutput, "c08:limit-wrong-status", "limit {lim} < size {n}: status {:?}", e.status);
                            vensure!(e.output[..] == plain[..lim], "c08:limit-prefix", "limit {lim} < size {n}: Err.output ({} bytes) is not the decoded prefix", e.output.len());
                        }
                    }
                    cx.class(&format!("limit:{}", if lim < n { "<n" } else if lim == n { "=n" } else { ">n" }));
                }
                if n >= 2 {
                    cx.nontrivial();
                }
                Ok(())
            }
        }
    }
}
