//! C10: compressor output is valid for independent decoders and honours level/strategy.

use crate::gen::config::{config, schedule, Config, Ctor, Schedule};
use crate::gen::data::{recipe, Recipe, Seg};
use crate::oracle::inflate::{inflate as ref_inflate, Opts, Tok, Verdict};
use crate::oracle::zlibffi;
use crate::runner::*;
use crate::sut::comp::{drive_compress, Driver};
use crate::vensure;
use proptest::prelude::*;
use serde::{Deserialize, Serialize};

#[derive(Clone, Debug, Serialize, Deserialize)]
pub enum Case {
    Gen { data: Recipe, cfg: Config, sched: Schedule, driver: Driver, set_level: Option<u8> },
    /// metamorphic: incompressible X repeated twice must compress well when matching is enabled
    Twice { n: u32, seed: u64, level: u8, strategy: u8, zlib: bool, created_at: Option<u8>, #[serde(default)] pad: u32 },
    /// a long run must compress under the run-length strategy
    Run { n: u32, byte: u8, level: u8, zlib: bool },
}

pub struct P;

/// the mode the configuration asks for, after the documented window-bits remapping of with_params
pub fn effective_mode(cfg: &Config) -> (i32, i32) {
    let (level, strategy) = cfg.requested();
    if cfg.ctor == Ctor::Params {
        let w = cfg.wbits.min(15);
        if w < 12 {
            if strategy != 2 && level != 0 {
                return (1, 3);
            }
            return (level, strategy);
        } else if w < 15 {
            return (level.min(1), strategy);
        }
    }
    (level, strategy)
}

impl Prop for P {
    const ID: &'static str = "C10";
    type Case = Case;
    fn meta() -> Meta {
        Meta {
            level: "exploration",
            rule: "plaintext recipe x (constructor, level, strategy, format, window bits) x call schedule x driver {buffer, callback, stream::deflate}; the emitted bytes are parsed by the reference inflater into a token trace which is checked against the requested mode (level 0 => stored only; Fixed => no dynamic block; HuffmanOnly => no match; RLE => distance 1 only; Filtered => no match < 5; lengths 3..258, distances 1..32768, one final block, nothing after it), plus the metamorphic relation |C(X||X)| <= 0.8 |X||X| for random X and |C(run)| <= n/8 under RLE. Non-trivial = the trace contains a match, or the strategy forbids matches the default strategy would have used (input has repetition); distinct by case fingerprint",
            assumptions: &["reference inflater implements RFC 1951/1950 (self-checked)", "for with_params and window_bits < 15 the 'requested mode' is the documented remapping (w < 12 => run-length mode unless level 0 / HuffmanOnly; w 12..14 => level capped at 1)"],
            dbg: false,
            simd: false,
            exhaustive: None,
        }
    }
    fn cases(tier: Tier) -> u64 {
        tier.pick(300_000, 3_000_000)
    }
    fn strategy(tier: Tier) -> BoxedStrategy<Case> {
        let data = match tier {
            Tier::Quick => prop_oneof![7 => recipe(3000, 4), 2 => recipe(40_000, 3), 1 => recipe(200_000, 2), 2 => crate::gen::data::recipe_wrap()].boxed(),
            Tier::Thorough => prop_oneof![6 => recipe(3000, 5), 3 => recipe(60_000, 4), 1 => recipe(1_000_000, 3)].boxed(),
        };
        let driver = prop_oneof![Just(Driver::Buf), Just(Driver::Callback), Just(Driver::Stream)];
        let g = (data, config(), schedule(5), driver, proptest::option::weighted(0.15, 0u8..=10)).prop_map(|(data, cfg, sched, driver, set_level)| Case::Gen { data, cfg, sched, driver, set_level });
        let tw = (200u32..=24_000, any::<u64>(), 1u8..=10, proptest::sample::select(vec![0u8, 1, 4]), any::<bool>(), proptest::option::weighted(0.3, 0u8..=10), prop_oneof![6 => Just(0u32), 1 => 1u32..=70_000, 2 => 65_000u32..=66_000, 1 => 66_000u32..=140_000]).prop_map(|(n, seed, level, strategy, zlib, created_at, pad)| {
            let n = if level == 1 { 200 + n % 1301 } else if pad > 0 { n.max(4000) } else { n };
            Case::Twice { n, seed, level, strategy, zlib, created_at, pad }
        });
        let run = (1000u32..=100_000, any::<u8>(), 1u8..=10, any::<bool>()).prop_map(|(n, byte, level, zlib)| Case::Run { n, byte, level, zlib });
        prop_oneof![16 => g, 3 => tw, 1 => run].boxed()
    }
    fn check(case: &Case, cx: &mut Ctx) -> Check {
        match case {
            Case::Gen { data, cfg, sched, driver, set_level } => check_gen(data, cfg, sched, *driver, *set_level, cx),
            Case::Twice { n, seed, level, strategy, zlib, created_at, pad } => {
                let mut x = Vec::new();
                Seg::Random { n: *n, seed: *seed }.append(&mut x);
                // X||X may sit behind `pad` unrelated random bytes: the redundancy is then exploited
                // at stream offsets beyond 32 KiB / 64 KiB as well
                // (only where the relation is sound: with the Fixed strategy, at level 1's 64 K-token
                // blocks, or for a short X, sharing a block with incompressible padding can make the
                // stored fallback the cheaper encoding of that whole block)
                let pad = if *level >= 2 && *strategy != 4 && *n >= 4000 { *pad } else { 0 };
                let mut padding = Vec::new();
                Seg::Random { n: pad, seed: seed.wrapping_mul(0x9e37_79b9).wrapping_add(7) }.append(&mut padding);
                let xx = [padding.clone(), x.clone(), x].concat();
                // either created at the level, or created at another level and switched with
                // set_compression_level_raw before any data (which resets the strategy to Default)
                let (mut c, strategy) = match created_at {
                    None => (Config { ctor: Ctor::Flags, level: *level as i32, strategy: *strategy as i32, zlib: *zlib, wbits: 15, hand: 0 }.make(), *strategy),
                    Some(l0) => {
                        let mut c = Config { ctor: Ctor::Flags, level: *l0 as i32, strategy: *strategy as i32, zlib: *zlib, wbits: 15, hand: 0 }.make();
                        c.set_compression_level_raw(*level);
                        cx.class("twice:level-set-after-construction");
                        (c, 0u8)
                    }
                };
                let strategy = &strategy;
                let run = drive_compress(&mut c, &xx, &Schedule { steps: vec![], finish_out: vec![1 << 20] }, Driver::Buf)?;
                cx.nontrivial();
                cx.class(&format!("twice:level{:02}:strategy{}", level, strategy));
                // what the padding alone costs (same configuration, fresh compressor)
                let pad_cost = if padding.is_empty() {
                    0
                } else {
                    let mut c2 = Config { ctor: Ctor::Flags, level: *level as i32, strategy: *strategy as i32, zlib: *zlib, wbits: 15, hand: 0 }.make();
                    drive_compress(&mut c2, &padding, &Schedule { steps: vec![], finish_out: vec![1 << 20] }, Driver::Buf)?.out.len() + 64 + padding.len() / 1000
                };
                if pad > 0 {
                    cx.class(&format!("twice:behind-padding:{}", match pad { 0..=32767 => "<32K", 32768..=65535 => "32K-64K", _ => ">=64K" }));
                }
                let limit = (xx.len() - padding.len()) * 80 / 100 + 16 + pad_cost;
                vensure!(run.out.len() <= limit, format!("c10:redundancy-not-exploited:level{}:strategy{}", if *level == 1 { "1" } else { ">=2" }, strategy), "{} random bytes, then X||X with |X|={} random bytes, at level {level} strategy {strategy} compressed to {} bytes; the padding alone costs {pad_cost}, so X||X took more than 80% of its {} bytes", pad, n, run.out.len(), xx.len() - padding.len());
                Ok(())
            }
            Case::Run { n, byte, level, zlib } => {
                let x = vec![*byte; *n as usize];
                let cfg = Config { ctor: Ctor::Flags, level: *level as i32, strategy: 3, zlib: *zlib, wbits: 15, hand: 0 };
                let mut c = cfg.make();
                let run = drive_compress(&mut c, &x, &Schedule { steps: vec![], finish_out: vec![1 << 20] }, Driver::Buf)?;
                cx.nontrivial();
                cx.class("run-under-rle");
                vensure!(run.out.len() <= x.len() / 8 + 32, "c10:run-not-compressed-under-rle", "a run of {n} bytes under RLE at level {level} compressed to {} bytes", run.out.len());
                Ok(())
            }
        }
    }
}

fn check_gen(data: &Recipe, cfg: &Config, sched: &Schedule, driver: Driver, set_level: Option<u8>, cx: &mut Ctx) -> Check {
    let x = data.expand();
    let mut c = cfg.make();
    // level switched before any data (only for constructors with the full window: with a smaller
    // window the call is documented to be refused for higher levels)
    let set_level = if cfg.ctor == Ctor::Params { None } else { set_level };
    if let Some(l) = set_level {
        c.set_compression_level_raw(l);
        cx.class("gen:level-set-after-construction");
    }
    let run = drive_compress(&mut c, &x, sched, driver)?;
    let zl = cfg.is_zlib();
    let r = ref_inflate(&run.out, &Opts::fmt(zl).tokens());
    vensure!(r.verdict == Verdict::Valid, "c10:reference-rejects", "reference inflater: {:?} at bit {} ({:?}, driver {driver:?}, input {} bytes)", r.verdict, r.bit_pos, cfg, x.len());
    vensure!(r.out == x, "c10:decodes-to-different-bytes", "output decodes to {} bytes differing from the {} byte input ({cfg:?})", r.out.len(), x.len());
    vensure!(r.consumed == run.out.len(), "c10:bytes-after-final-block", "{} bytes emitted but the stream ends after {}", run.out.len(), r.consumed);
    let finals = r.blocks.iter().filter(|b| b.bfinal).count();
    vensure!(finals == 1 && r.blocks.last().map(|b| b.bfinal).unwrap_or(false), "c10:final-block-count", "{} final blocks", finals);
    if let Some(z) = zlibffi::z_inflate(&run.out, if zl { 15 } else { -15 }, 1 << 16, x.len() + 1024) {
        if !(z.ok && z.out == x) {
            cx.class("oracle_disagreement:zlib-rejects-what-reference-accepts");
        }
    }
    let (level, strategy) = match set_level {
        Some(l) => (l.min(10) as i32, 0),
        None => effective_mode(cfg),
    };
    let mut n_match = 0usize;
    let mut min_len = u16::MAX;
    let mut max_dist = 0u32;
    let mut non1 = 0usize;
    for b in &r.blocks {
        vensure!(b.stored_len <= 65535, "c10:stored-len", "stored block of {} bytes", b.stored_len);
        if b.btype == 2 {
            vensure!(b.hlit <= 286 && b.hdist <= 30 && b.hclen <= 19, "c10:table-counts", "HLIT {} HDIST {} HCLEN {}", b.hlit, b.hdist, b.hclen);
            vensure!(b.lit_lens.iter().chain(b.dist_lens.iter()).all(|&l| l <= 15), "c10:code-length>15", "code length > 15");
        }
        for t in &b.tokens {
            if let Tok::Match { len, dist } = *t {
                n_match += 1;
                min_len = min_len.min(len);
                max_dist = max_dist.max(dist);
                vensure!((3..=258).contains(&len) && (1..=32768).contains(&dist), "c10:token-range", "match length {len} distance {dist}");
                if dist != 1 {
                    non1 += 1;
                }
            }
        }
    }
    if level == 0 {
        // A Partial / PartialOpt flush request is *defined* as "emit an empty fixed block" (the 10-bit
        // marker); that marker is not data and is allowed at level 0 exactly when such a flush was requested.
        let partial_requested = sched.steps.iter().any(|s| matches!(s.flush, 1 | 5 | 6));
        vensure!(r.blocks.iter().all(|b| b.btype == 0 || (partial_requested && b.btype == 1 && b.out_len == 0)), "c10:level0-non-stored-block", "level 0 emitted a non-stored block ({cfg:?})");
    } else {
        match strategy {
            4 => vensure!(r.blocks.iter().all(|b| b.btype != 2), "c10:fixed-emits-dynamic", "Fixed strategy emitted a dynamic block ({cfg:?})"),
            2 => vensure!(n_match == 0, "c10:huffman-only-emits-match", "HuffmanOnly emitted {n_match} matches ({cfg:?})"),
            3 => vensure!(non1 == 0, "c10:rle-emits-distance>1", "run-length mode emitted {non1} matches with distance != 1 (max distance {max_dist}) ({cfg:?}, effective level {level})"),
            1 => vensure!(n_match == 0 || min_len >= 5, "c10:filtered-emits-short-match", "Filtered emitted a match of length {min_len} ({cfg:?})"),
            _ => {}
        }
    }
    // classification
    let repetitive = data.twice || data.segs.iter().any(|s| matches!(s, Seg::CopyBack { len, .. } if *len >= 6) || matches!(s, Seg::Run { n, .. } if *n >= 6) || matches!(s, Seg::Text { n, .. } if *n > 40));
    if n_match > 0 || ((strategy == 2 || level == 0) && repetitive) {
        cx.nontrivial();
    }
    cx.class(&format!("eff-level:{level:02}"));
    cx.class(&format!("eff-strategy:{strategy}"));
    cx.class(&format!("driver:{driver:?}"));
    cx.class(if n_match > 0 { "trace:has-match" } else { "trace:no-match" });
    if run.suspended {
        cx.class("schedule:suspended");
    }
    if run.mid_flush {
        cx.class("schedule:mid-flush");
    }
    for b in &r.blocks {
        cx.class(["blocktype:stored", "blocktype:fixed", "blocktype:dynamic", "?"][b.btype.min(3) as usize]);
    }
    Ok(())
}
