//! C07: decoding can be suspended and resumed anywhere without changing the result.

use super::common::*;
use crate::oracle::inflate::{inflate as ref_inflate, Opts, Verdict};
use crate::runner::*;
use crate::sut::dec::*;
use crate::sut::*;
use crate::vensure;
use miniz_oxide::inflate::stream::InflateState;
use miniz_oxide::MZFlush;
use proptest::prelude::*;
use serde::{Deserialize, Serialize};

#[derive(Clone, Debug, Serialize, Deserialize)]
pub enum Case {
    /// every single cut point + byte-wise feeding, each also with small output budgets
    Cuts { input: AnyInput, ring: Option<(u8, u32, u64)> },
    Random { input: AnyInput, ring: Option<(u8, u32, u64)>, scheds: Vec<DecSched> },
    Inflate { input: AnyInput, slicings: Vec<(Vec<u32>, Vec<u32>)> },
}

pub struct P;

fn ring() -> BoxedStrategy<Option<(u8, u32, u64)>> {
    prop_oneof![3 => Just(None), 2 => (Just(15u8), any::<u32>(), any::<u64>()).prop_map(Some), 2 => (0u8..=16, any::<u32>(), prop_oneof![Just(0u64), any::<u64>()]).prop_map(Some)].boxed()
}

fn input() -> BoxedStrategy<AnyInput> {
    // half valid, half anything
    prop_oneof![1 => valid_src(false).prop_map(|src| AnyInput { src, muts: vec![] }), 1 => any_input()].boxed()
}

type Outcome = (Vec<u8>, TINFLStatus, usize);

fn outcome(r: &DecRun) -> Outcome {
    (r.out.clone(), r.status, r.consumed)
}

fn is_mid_symbol(state: u8) -> bool {
    !matches!(state_name(state), "Start" | "ReadBlockHeader" | "ReadZlibCmf" | "DoneForever" | "BlockDone")
}

impl Prop for P {
    const ID: &'static str = "C07";
    type Case = Case;
    fn meta() -> Meta {
        Meta {
            level: "exploration",
            rule: "inputs valid (4 sources) and invalid (directive streams, mutants, random bytes) x buffer mode (flat; rings of 2^0..2^16 with random or zero initial contents); reference run = maximal calls with everything offered; compared runs = EVERY single cut point and one-byte feeding (inputs <= 700 bytes), each also under small per-call output budgets, plus random partitions incl. empty chunks with random budgets, plus inflate() under arbitrary in/out slicing. Oracle: identical (output bytes, final status, total consumed) within a mode; for valid inputs also identical across modes and equal to the reference plaintext. Non-trivial = a run in which input ran out inside a code / extra-bits field / stored header or payload / trailer AND a call stopped for lack of output in the middle of a match; distinct by (input, schedule) fingerprint",
            assumptions: &["every schedule ends with a call that does not announce more input, so verdicts are comparable"],
            dbg: true,
            simd: false,
            exhaustive: None,
        }
    }
    fn cases(tier: Tier) -> u64 {
        tier.pick(30_000, 300_000)
    }
    fn strategy(_tier: Tier) -> BoxedStrategy<Case> {
        let cuts = (input(), ring()).prop_map(|(input, ring)| Case::Cuts { input, ring });
        let rnd = (input(), ring(), proptest::collection::vec(dec_sched(), 1..4)).prop_map(|(input, ring, scheds)| Case::Random { input, ring, scheds });
        let sl = (proptest::collection::vec(prop_oneof![0u32..=3, 1u32..=40, 1u32..=2000], 0..12), proptest::collection::vec(prop_oneof![1u32..=3, 1u32..=60, Just(70000u32)], 1..5));
        let inf = (prop_oneof![10 => input(), 2 => big_output_input(), 1 => window_edge_input()], proptest::collection::vec(sl, 1..4)).prop_map(|(input, slicings)| Case::Inflate { input, slicings });
        prop_oneof![3 => cuts, 5 => rnd, 2 => inf].boxed()
    }
    fn check(case: &Case, cx: &mut Ctx) -> Check {
        match case {
            Case::Cuts { input, ring } => {
                let Some((data, zl)) = input.bytes(cx) else { return Ok(()) };
                if data.len() > 700 {
                    cx.class("cuts:skipped-long-input");
                    return Ok(());
                }
                let env = Env::new(&data, zl, *ring, cx)?;
                let Some(env) = env else { return Ok(()) };
                env.trailer_cuts(zl, cx)?;
                let n = data.len();
                for k in 1..n {
                    let s = DecSched { chunks: vec![k as u32], budgets: vec![] };
                    env.compare(&s, &format!("cut at {k}"), cx)?;
                    let b = 1 + (k % 7) as u32;
                    let s = DecSched { chunks: vec![k as u32], budgets: vec![b; (env.ref_out_len / b as usize + 4).min(4000)] };
                    env.compare(&s, &format!("cut at {k}, budget {b}"), cx)?;
                }
                let s = DecSched { chunks: vec![1; n + 1], budgets: vec![] };
                env.compare(&s, "byte-wise", cx)?;
                let s = DecSched { chunks: vec![1; n + 1], budgets: vec![1; (env.ref_out_len + n + 8).min(20000)] };
                env.compare(&s, "byte-wise, 1-byte budgets", cx)?;
                cx.class("cuts:exhaustive-inputs");
                Ok(())
            }
            Case::Random { input, ring, scheds } => {
                let Some((data, zl)) = input.bytes(cx) else { return Ok(()) };
                let Some(env) = Env::new(&data, zl, *ring, cx)? else { return Ok(()) };
                env.trailer_cuts(zl, cx)?;
                for (i, s) in scheds.iter().enumerate() {
                    env.compare(s, &format!("random schedule #{i}"), cx)?;
                }
                // the slice-iterator helper: one slice vs. the same bytes in several slices
                if ring.is_none() {
                    let cap = env.ref_out_len + 300;
                    let one = {
                        let mut out = vec![0u8; cap];
                        let r = guard(|| miniz_oxide::inflate::decompress_slice_iter_to_slice(&mut out, std::iter::once(&data[..]), zl, false)).map_err(|pm| Violation::new(panic_sig("slice_iter", &pm), format!("panic: {pm}")))?;
                        (r, r.ok().map(|n| out[..n].to_vec()))
                    };
                    for s in scheds {
                        // zero-length chunks stay in: an empty slice between two others is still "more input follows"
                        let cuts: Vec<usize> = s.chunks.iter().scan(0usize, |acc, &c| { *acc = (*acc + c as usize).min(data.len()); Some(*acc) }).collect();
                        let mut slices: Vec<&[u8]> = Vec::new();
                        let mut p = 0;
                        for c in cuts {
                            slices.push(&data[p..c]);
                            p = c;
                        }
                        slices.push(&data[p..]);
                        let mut out = vec![0u8; cap];
                        let r = guard(|| miniz_oxide::inflate::decompress_slice_iter_to_slice(&mut out, slices.iter().copied(), zl, false)).map_err(|pm| Violation::new(panic_sig("slice_iter", &pm), format!("panic: {pm}")))?;
                        let many = (r, r.ok().map(|n| out[..n].to_vec()));
                        vensure!(many == one, "c07:slice-iter-partition-changes-result", "decompress_slice_iter_to_slice: one slice gives {:?}, {} slices give {:?} (input {} bytes)", one.0, slices.len(), many.0, data.len());
                        cx.evals(1);
                    }
                }
                Ok(())
            }
            Case::Inflate { input, slicings } => {
                let Some((data, zl)) = input.bytes(cx) else { return Ok(()) };
                let run = |ch: &[u32], os: &[u32]| -> Result<_, Violation> {
                    let mut st = InflateState::new_boxed(fmt_of(zl));
                    // never let the very first call be the "everything + Finish" shortcut: use flush None throughout
                    let r = inflate_loop_driver(&mut st, &data, ch, os, MZFlush::None, false)?;
                    Ok((r.out, r.status, r.consumed))
                };
                let base = run(&[], &[1 << 17])?;
                let v = ref_inflate(&data, &Opts { max_out: 4 << 20, ..Opts::fmt(zl) });
                let valid = v.verdict == Verdict::Valid;
                if valid {
                    // "for valid streams the result is also the same across ... entry points"
                    vensure!(base.0 == v.out && base.1 == Ok(miniz_oxide::MZStatus::StreamEnd) && base.2 == v.consumed, "c07:valid-differs-across-entry-points", "inflate() (flush None, everything offered, 128 KiB output per call) on a valid stream: ({} bytes, {:?}, consumed {}), the core decoder / reference: ({} bytes, Done, consumed {})", base.0.len(), base.1, base.2, v.out.len(), v.consumed);
                    if v.out.len() > 32768 {
                        cx.class("inflate-slicing:valid,output>32KiB");
                    }
                }
                for (ch, os) in slicings {
                    let o = run(ch, os)?;
                    if valid {
                        vensure!(o == base, "c07:inflate-slicing-changes-result", "inflate() on a valid stream: one big call sequence gives (out {}, {:?}, consumed {}), slicing in {:?} / out {:?} gives (out {}, {:?}, consumed {})", base.0.len(), base.1, base.2, ch, os, o.0.len(), o.1, o.2);
                    } else {
                        // For invalid input the wrapper reports the error as soon as the core decoder does; data
                        // still pending in its window is dropped (as in miniz: "oh well"), so how much was
                        // delivered before the error depends on the output sizes. Only the verdict and the
                        // prefix relation are comparable.
                        let (a, b) = if o.0.len() <= base.0.len() { (&o.0, &base.0) } else { (&base.0, &o.0) };
                        vensure!(o.1 == base.1 && b[..a.len()] == a[..], "c07:inflate-slicing-changes-verdict", "inflate() on an invalid stream: (out {}, {:?}) vs (out {}, {:?}) under slicing in {:?} / out {:?}", base.0.len(), base.1, o.0.len(), o.1, ch, os);
                    }
                    cx.evals(1);
                }
                cx.class(if valid { "inflate-slicing:valid" } else { "inflate-slicing:invalid" });
                cx.class("inflate-slicing");
                cx.nontrivial();
                Ok(())
            }
        }
    }
}

struct Env<'a> {
    data: &'a [u8],
    zf: u32,
    mode: BufMode,
    reference: Outcome,
    ref_out_len: usize,
    valid_plain: Option<Vec<u8>>,
}

impl<'a> Env<'a> {
    fn new(data: &'a [u8], zl: bool, ring: Option<(u8, u32, u64)>, cx: &mut Ctx) -> Result<Option<Env<'a>>, Violation> {
        let v = ref_inflate(data, &Opts { max_out: 4 << 20, ..Opts::fmt(zl) });
        if v.verdict == Verdict::TooBig {
            cx.class("skipped:output-cap");
            return Ok(None);
        }
        let zf = zflags(zl);
        let mode = match ring {
            None => BufMode::Flat { cap: v.out.len() + 259 },
            Some((bits, start, fill_seed)) => BufMode::Ring { bits, start, fill_seed },
        };
        let mut d = DecompressorOxide::new();
        let s = DecSched::default();
        let r = drive(&mut d, data, &DriveOpts { flags: zf, mode, sched: &s, canary: false, max_calls: None, announce: true, flat_start: 0, probe_full_ring: false }, plain_hook)?;
        if r.out_of_space {
            // an invalid stream can produce more than the reference did before its verdict (it may not)
            cx.class("skipped:flat-buffer-exhausted");
            return Ok(None);
        }
        // "same across modes" presumes a legal ring: at least as large as every distance used and as
        // the window declared in a zlib header
        let ring_legal = match mode {
            BufMode::Flat { .. } => true,
            BufMode::Ring { bits, .. } => {
                let sz = 1usize << bits;
                sz >= v.max_dist() as usize && v.header.map(|(cmf, _)| sz >= 1usize << ((cmf >> 4) + 8)).unwrap_or(true)
            }
        };
        let valid_plain = if v.verdict == Verdict::Valid && ring_legal { Some(v.out.clone()) } else { None };
        cx.class(if valid_plain.is_some() { "input:valid" } else { "input:invalid-or-truncated" });
        cx.class(match mode {
            BufMode::Flat { .. } => "mode:flat",
            BufMode::Ring { .. } => "mode:ring",
        });
        if let (Some(p), BufMode::Flat { .. }) = (&valid_plain, mode) {
            vensure!(r.status == TINFLStatus::Done && &r.out == p, "c07:valid-not-decoded", "valid stream: reference run gives {} / {} bytes (want {})", status_name(r.status), r.out.len(), p.len());
        }
        Ok(Some(Env { data, zf, mode, reference: outcome(&r), ref_out_len: r.out.len(), valid_plain }))
    }

    /// Exact-size output and input cut inside the zlib trailer (upstream issue #110). All plaintext is
    /// out and every deflate bit has been supplied, so the only truthful answer to "more input follows"
    /// is `NeedsMoreInput`, never `HasMoreOutput`; resuming with the rest finishes with `Done`; and
    /// `decompress_slice_iter_to_slice` succeeds with an output slice of exactly the plaintext's size.
    /// (Cuts *before* the end-of-block code are left out on purpose: there the crate answers
    /// `HasMoreOutput` for a full buffer by design, and no clause of C07 forbids it.)
    fn trailer_cuts(&self, zl: bool, cx: &mut Ctx) -> Check {
        let (Some(p), BufMode::Flat { .. }, true) = (&self.valid_plain, self.mode, zl) else { return Ok(()) };
        let c = self.reference.2;
        if c < 6 || c > self.data.len() || self.reference.1 != TINFLStatus::Done {
            return Ok(());
        }
        let flags = (self.zf & !TINFL_FLAG_HAS_MORE_INPUT) | TINFL_FLAG_USING_NON_WRAPPING_OUTPUT_BUF;
        for k in c - 4..c {
            let mut d = DecompressorOxide::new();
            let mut out = vec![0u8; p.len()];
            let data = self.data;
            let (st, used, wrote) = guard(|| miniz_oxide::inflate::core::decompress(&mut d, &data[..k], &mut out, 0, flags | TINFL_FLAG_HAS_MORE_INPUT)).map_err(|pm| Violation::new(panic_sig("decompress", &pm), format!("panic: {pm}")))?;
            vensure!(st == TINFLStatus::NeedsMoreInput && used == k && wrote == p.len(), "c07:exact-output-cut-in-trailer", "zlib stream of {c} bytes, output slice of exactly the plaintext's {} bytes, first {k} input bytes with HAS_MORE_INPUT: {} (consumed {used}, wrote {wrote}); want NeedsMoreInput, {k}, {}", p.len(), status_name(st), p.len());
            let (st2, used2, wrote2) = guard(|| miniz_oxide::inflate::core::decompress(&mut d, &data[k..c], &mut out, wrote, flags)).map_err(|pm| Violation::new(panic_sig("decompress", &pm), format!("panic: {pm}")))?;
            vensure!(st2 == TINFLStatus::Done && used2 == c - k && wrote2 == 0 && &out == p, "c07:exact-output-cut-in-trailer", "resumed after a cut at {k} of {c} with an exact-size output: {} (consumed {used2}, wrote {wrote2})", status_name(st2));
            let mut out = vec![0u8; p.len()];
            let slices = [&data[..k], &data[k..c]];
            let r = guard(|| miniz_oxide::inflate::decompress_slice_iter_to_slice(&mut out, slices.iter().copied(), true, false)).map_err(|pm| Violation::new(panic_sig("slice_iter", &pm), format!("panic: {pm}")))?;
            vensure!(r == Ok(p.len()) && &out == p, "c07:slice-iter-exact-output-cut-in-trailer", "decompress_slice_iter_to_slice, output slice of exactly {} bytes, input cut at {k} of {c}: {:?}", p.len(), r);
            cx.evals(3);
        }
        cx.class("exact-output:cut-in-trailer");
        Ok(())
    }

    fn compare(&self, s: &DecSched, what: &str, cx: &mut Ctx) -> Check {
        let mut d = DecompressorOxide::new();
        let r = drive(&mut d, self.data, &DriveOpts { flags: self.zf, mode: self.mode, sched: s, canary: false, max_calls: None, announce: true, flat_start: 0, probe_full_ring: false }, plain_hook)?;
        cx.evals(1);
        let o = outcome(&r);
        if o != self.reference {
            let (ro, rs, rc) = &self.reference;
            let kind = if o.1 != *rs { "status" } else if o.0 != *ro { "output" } else { "consumed" };
            return Err(Violation::new(format!("c07:{kind}-differs-under-resumption"), format!("{what} ({:?}): one-call result ({} bytes, {}, consumed {}) vs split result ({} bytes, {}, consumed {}); input {} bytes; first output difference at {}", self.mode, ro.len(), status_name(*rs), rc, o.0.len(), status_name(o.1), o.2, self.data.len(), ro.iter().zip(o.0.iter()).take_while(|(a, b)| a == b).count())));
        }
        if let Some(p) = &self.valid_plain {
            // valid streams: same across modes (ring semantics cannot differ: no pre-stream references)
            vensure!(&o.0 == p && o.1 == TINFLStatus::Done, "c07:valid-differs-across-modes", "{what} ({:?}): valid stream gives {} / {} bytes, plaintext has {}", self.mode, status_name(o.1), o.0.len(), p.len());
        }
        let mut starved_mid = false;
        let mut full_mid_match = false;
        for (st, status) in &r.suspensions {
            cx.class(&format!("suspend:{}:{}", state_name(*st), status_name(*status)));
            if *status == TINFLStatus::NeedsMoreInput && is_mid_symbol(*st) {
                starved_mid = true;
            }
            if *status == TINFLStatus::HasMoreOutput && state_name(*st) == "WriteLenBytesToEnd" {
                full_mid_match = true;
            }
        }
        if starved_mid && full_mid_match {
            cx.sub_nontrivial(crate::oracle::sums::fnv64(self.data) ^ fingerprint(s) ^ fingerprint(&self.mode));
        }
        Ok(())
    }
}
