//! C17: the C ABI shim gives the same results as the Rust API, keeps exact accounting, stays inside
//! the caller's buffers (guard pages) and answers misuse with error codes.

use super::common::*;
use crate::gen::data::{recipe, Recipe};
use crate::runner::*;
use crate::sut::capi::{check_accounting, snap, tinfl_decompressor_alloc, tinfl_decompressor_free, tinfl_get_adler32, tinfl_init};
use crate::sut::guardbuf::{Align, GuardBuf};
use crate::sut::*;
use crate::{vensure, vfail};
use libc::{c_int, c_uint, c_ulong, c_void};
use miniz_oxide::deflate::core::{compress, create_comp_flags_from_zip_params, deflate_flags, CompressorOxide, TDEFLFlush, TDEFLStatus};
use miniz_oxide::deflate::stream::deflate;
use miniz_oxide::inflate::stream::{inflate, InflateState};
use miniz_oxide::{MZFlush, MZStatus};
use miniz_oxide_c_api::*;
use proptest::prelude::*;
use serde::{Deserialize, Serialize};

#[derive(Clone, Debug, Serialize, Deserialize)]
pub enum Case {
    Deflate { data: Recipe, level: i8, raw: bool, strategy: i8, #[serde(default)] pre: Option<Vec<(u32, u32, i8)>>, steps: Vec<(u32, u32, i8)>, finish_out: u32, end_align: bool },
    Inflate { input: AnyInput, steps: Vec<(u32, u32, i8)>, end_align: bool },
    OneShot { data: Recipe, level: i8, dest_delta: i32, end_align: bool },
    Uncompress { input: AnyInput, dest_len: u32, end_align: bool },
    Tinfl { input: AnyInput, flags: u32, out_len: u32, start: u32, mode: u8, end_align: bool },
    Tdefl { data: Recipe, level: i8, zlib: bool, strategy: u8, mode: u8, chunks: Vec<u32>, out_len: u32, end_align: bool },
    Params { level: i32, method: i32, window: i32, mem_level: i32, strategy: i32, flush: i32 },
    /// tinfl_decompress_mem_to_heap on raw/zlib streams whose plaintext size sits just past a growth
    /// step (128 << k) of its internal buffer
    HeapGrow { k: u8, d: u16, class: u8, level: u8, zlib: bool, seed: u64 },
    Misuse { kind: u8 },
}

pub struct P;

const N_MISUSE: u8 = 27;

fn rc_of(r: Result<MZStatus, miniz_oxide::MZError>) -> i32 {
    match r {
        Ok(s) => s as i32,
        Err(e) => e as i32,
    }
}

/// the Rust flush mode that corresponds to a C flush value, written out here (not taken from the
/// crate's own conversion): MZ_PARTIAL_FLUSH is documented as "currently treated as Sync"
fn mzflush_of(v: i32) -> Option<MZFlush> {
    match v {
        0 => Some(MZFlush::None),
        1 | 2 => Some(MZFlush::Sync),
        3 => Some(MZFlush::Full),
        4 => Some(MZFlush::Finish),
        _ => None,
    }
}

fn al(end: bool) -> Align {
    if end {
        Align::End
    } else {
        Align::Start
    }
}

impl Prop for P {
    const ID: &'static str = "C17";
    type Case = Case;
    fn meta() -> Meta {
        Meta {
            level: "exploration",
            rule: "every exported C function: mz_deflate*/mz_inflate* under generated (avail_in, avail_out, flush) schedules (mz_deflate also after an earlier stream on the same object + mz_deflateReset; tdefl_compress/_buffer also after earlier tdefl_init calls on the same object), mz_compress/mz_compress2/mz_uncompress, tinfl_decompress/_mem_to_mem/_mem_to_heap, tdefl_compress/_buffer/_mem_to_mem/_mem_to_heap/_mem_to_output, bounds; every buffer handed to C lives in an mmap'ed region that abuts a PROT_NONE page at its end (or at its start), so an access outside the declared range kills the worker (attributed via the journal and confirmed in isolation); oracle: the same schedule through the corresponding Rust call gives identical bytes and status; next_in/avail_in/total_in (and out) move consistently and never beyond what was available; parameter values around the legal ones (level -3..13, method 0..9, window +-8..+-16 and 0, mem_level 0..10, strategy -1..6, flush -1..7) and 27 misuse cases (null stream, null next_in/next_out, null dest_len, stream of the other kind, ended stream, custom zalloc/zfree, null compressor / size pointers / buffers for tdefl_* and tinfl_*) must return an error code / null / 0 with the process alive. Non-trivial = a stream schedule with >= 3 calls of which one had avail_out smaller than the pending output, or a misuse case that passes the first argument check; distinct by case fingerprint",
            assumptions: &["a null *decompressor object* passed to tinfl_decompress/tinfl_init (documented expect/unwrap panic) and null size pointers of tinfl_decompress are not in the property's list and are not asserted", "an out-of-range tdefl_flush enum value cannot be passed from Rust without UB and is not attempted"],
            dbg: true,
            simd: false,
            exhaustive: None,
        }
    }
    fn cases(tier: Tier) -> u64 {
        tier.pick(6_000, 60_000)
    }
    fn fixed_cases(_tier: Tier) -> Vec<Case> {
        (0..N_MISUSE).map(|kind| Case::Misuse { kind }).collect()
    }
    fn strategy(_tier: Tier) -> BoxedStrategy<Case> {
        let step = (prop_oneof![0u32..=3, 1u32..=400, 1u32..=40_000], prop_oneof![1u32..=6, 1u32..=400, 1u32..=90_000], prop_oneof![6 => Just(0i8), 1 => Just(1i8), 1 => Just(2i8), 1 => Just(3i8)]);
        let steps = proptest::collection::vec(step, 0..8);
        // earlier history on the same stream object (before mz_deflateReset): calls that offer no
        // input at all (empty stream finished, flush with nothing) as well as ordinary ones
        let pre_step = (prop_oneof![3 => Just(0u32), 1 => 0u32..=3, 1 => 1u32..=4000], prop_oneof![1u32..=6, 1u32..=400, Just(90_000u32)], prop_oneof![2 => Just(0i8), 1 => Just(1i8), 2 => Just(2i8), 1 => Just(3i8), 3 => Just(4i8)]);
        let pre = proptest::option::weighted(0.3, proptest::collection::vec(pre_step, 0..4));
        let defl = (recipe(30_000, 3), -1i8..=10, any::<bool>(), 0i8..=4, pre, steps.clone(), prop_oneof![1u32..=7, 1u32..=500, Just(100_000u32)], any::<bool>()).prop_map(|(data, level, raw, strategy, pre, steps, finish_out, end_align)| Case::Deflate { data, level, raw, strategy, pre, steps, finish_out, end_align });
        let input = prop_oneof![3 => valid_src(false).prop_map(|src| AnyInput { src, muts: vec![] }), 1 => any_input()];
        let istep = (prop_oneof![0u32..=3, 1u32..=400, Just(u32::MAX)], prop_oneof![0u32..=3, 1u32..=400, 1u32..=90_000], prop_oneof![6 => Just(0i8), 1 => Just(2i8), 2 => Just(4i8), 1 => Just(3i8), 1 => Just(1i8)]);
        let infl = (input.clone(), proptest::collection::vec(istep, 1..12), any::<bool>()).prop_map(|(input, steps, end_align)| Case::Inflate { input, steps, end_align });
        let one = (recipe(30_000, 3), -1i8..=10, prop_oneof![Just(0i32), -40i32..=40, -3000i32..=3000], any::<bool>()).prop_map(|(data, level, dest_delta, end_align)| Case::OneShot { data, level, dest_delta, end_align });
        let unc = (input.clone(), prop_oneof![0u32..=64, 0u32..=70_000], any::<bool>()).prop_map(|(input, dest_len, end_align)| Case::Uncompress { input, dest_len, end_align });
        let tinfl = (input, proptest::bits::u32::masked(1 | 2 | 4 | 8 | 64), prop_oneof![2 => Just(0u32), 4 => 0u32..=64, 4 => 0u32..=70_000], 0u32..=40, 0u8..4, any::<bool>()).prop_map(|(input, flags, out_len, start, mode, end_align)| Case::Tinfl { input, flags, out_len, start, mode, end_align });
        let tdefl = (recipe(30_000, 3), -1i8..=10, any::<bool>(), 0u8..=4, 0u8..6, proptest::collection::vec(prop_oneof![0u32..=3, 1u32..=3000], 0..6), prop_oneof![0u32..=64, 0u32..=50_000], any::<bool>()).prop_map(|(data, level, zlib, strategy, mode, chunks, out_len, end_align)| Case::Tdefl { data, level, zlib, strategy, mode, chunks, out_len, end_align });
        let par = (-3i32..=13, 0i32..=9, prop_oneof![Just(15i32), Just(-15i32), -16i32..=16], 0i32..=10, -1i32..=6, -1i32..=7).prop_map(|(level, method, window, mem_level, strategy, flush)| Case::Params { level, method, window, mem_level, strategy, flush });
        let hg = (0u8..=8, 0u16..=300, 0u8..4, 0u8..=10, any::<bool>(), any::<u64>()).prop_map(|(k, d, class, level, zlib, seed)| Case::HeapGrow { k, d, class, level, zlib, seed });
        prop_oneof![4 => defl, 4 => infl, 2 => one, 2 => unc, 3 => tinfl, 3 => tdefl, 2 => par, 3 => hg].boxed()
    }
    fn check(case: &Case, cx: &mut Ctx) -> Check {
        match case {
            Case::Deflate { data, level, raw, strategy, pre, steps, finish_out, end_align } => c_deflate(data, *level as i32, *raw, *strategy as i32, pre.as_deref(), steps, *finish_out, *end_align, cx),
            Case::Inflate { input, steps, end_align } => c_inflate(input, steps, *end_align, cx),
            Case::OneShot { data, level, dest_delta, end_align } => c_oneshot(data, *level as i32, *dest_delta, *end_align, cx),
            Case::Uncompress { input, dest_len, end_align } => c_uncompress(input, *dest_len as usize, *end_align, cx),
            Case::Tinfl { input, flags, out_len, start, mode, end_align } => c_tinfl(input, *flags, *out_len as usize, *start as usize, *mode, *end_align, cx),
            Case::Tdefl { data, level, zlib, strategy, mode, chunks, out_len, end_align } => c_tdefl(data, *level as i32, *zlib, *strategy as i32, *mode, chunks, *out_len as usize, *end_align, cx),
            Case::Params { level, method, window, mem_level, strategy, flush } => c_params(*level, *method, *window, *mem_level, *strategy, *flush, cx),
            Case::Misuse { kind } => c_misuse(*kind, cx),
            Case::HeapGrow { k, d, class, level, zlib, seed } => {
                let n = (128usize << *k) + *d as usize - (*d as usize % 7 == 0) as usize * 3;
                let mut st = *seed;
                let x: Vec<u8> = match class % 4 {
                    0 => vec![(*seed & 0xff) as u8; n],
                    1 => (0..n).map(|i| b"abcdefghij"[i % (2 + (*seed as usize % 9))]).collect(),
                    2 => {
                        let mut v = Vec::new();
                        crate::gen::data::Seg::Text { n: n as u32, seed: *seed }.append(&mut v);
                        v
                    }
                    _ => (0..n).map(|_| crate::oracle::sums::splitmix64(&mut st) as u8).collect(),
                };
                let comp = if *zlib { miniz_oxide::deflate::compress_to_vec_zlib(&x, *level) } else { miniz_oxide::deflate::compress_to_vec(&x, *level) };
                let gin = GuardBuf::from_slice(&comp, Align::End);
                let mut len = 1usize;
                let flags = if *zlib { TINFL_FLAG_PARSE_ZLIB_HEADER } else { 0 };
                // SAFETY: guard buffer for the source; result freed with the shim's free function
                let p = guard(|| unsafe { tinfl_decompress_mem_to_heap(gin.ptr() as *const c_void, comp.len(), &mut len, flags as c_int) }).map_err(|pm| Violation::new(panic_sig("c17:tinfl_decompress_mem_to_heap", &pm), format!("unwound: {pm}")))?;
                vensure!(!p.is_null() && len == x.len(), "c17:mem_to_heap-differs", "tinfl_decompress_mem_to_heap on a valid {} stream of {} plaintext bytes ({} compressed): null={} len {len}; decompress_to_vec gives the plaintext", if *zlib { "zlib" } else { "raw" }, x.len(), comp.len(), p.is_null());
                // SAFETY: len bytes allocated by the shim
                let got = unsafe { std::slice::from_raw_parts(p as *const u8, len) };
                let same = got == &x[..];
                // SAFETY: allocated by the shim's allocator
                unsafe { miniz_def_free_func(std::ptr::null_mut(), p) };
                vensure!(same, "c17:mem_to_heap-bytes", "bytes differ");
                cx.evals(1);
                cx.class("fn:tinfl_decompress_mem_to_heap(growth-step sizes)");
                cx.nontrivial();
                Ok(())
            }
        }
    }
    fn fixed_on_all_profiles() -> bool {
        true
    }
    fn crash_sig(case: &Case) -> Option<String> {
        match case {
            Case::Misuse { kind } => Some(format!("c17:crash:misuse:{}", misuse_name(*kind))),
            Case::Tinfl { mode, .. } => Some(format!("c17:crash:tinfl-mode{}", mode % 4)),
            Case::Tdefl { mode, .. } => Some(format!("c17:crash:tdefl-mode{}", mode % 6)),
            Case::Deflate { .. } => Some("c17:crash:mz_deflate".into()),
            Case::Inflate { .. } => Some("c17:crash:mz_inflate".into()),
            Case::OneShot { .. } => Some("c17:crash:mz_compress".into()),
            Case::Uncompress { .. } => Some("c17:crash:mz_uncompress".into()),
            Case::Params { .. } => Some("c17:crash:params".into()),
            Case::HeapGrow { .. } => Some("c17:crash:tinfl-mem_to_heap".into()),
        }
    }
}

/// one phase of an mz_deflate history, C and Rust side by side; `finish_out`: after the listed
/// steps keep calling with everything + MZ_FINISH until the stream ends
#[allow(clippy::too_many_arguments)]
fn deflate_phase(s: &mut mz_stream, r: &mut CompressorOxide, x: &[u8], steps: &[(u32, u32, i8)], finish_out: Option<u32>, end_align: bool, calls: &mut u64, pending_small: &mut bool) -> Check {
    let mut ipos = 0usize;
    let mut i = 0usize;
    let mut fin_calls = 0u32;
    loop {
        let (take, osz, fl) = if i < steps.len() {
            let (a, b, f) = steps[i];
            ((a as usize).min(x.len() - ipos), b.max(1) as usize, f as i32)
        } else if let Some(fo) = finish_out {
            // the finishing phase collects the output in `fo`-byte pieces for at most 3000 calls, then
            // in 128 KiB pieces (every call re-offers the whole remaining input from a fresh guarded
            // copy: tens of thousands of such calls take minutes and trip the stall watchdog)
            fin_calls += 1;
            (x.len() - ipos, if fin_calls > 3000 { 1 << 17 } else { fo.max(1) as usize }, 4)
        } else {
            break;
        };
        i += 1;
        let gin = GuardBuf::from_slice(&x[ipos..ipos + take], al(end_align));
        let mut gout = GuardBuf::new(osz, al(end_align));
        s.next_in = gin.ptr();
        s.avail_in = take as c_uint;
        s.next_out = gout.ptr();
        s.avail_out = osz as c_uint;
        let before = snap(s);
        // SAFETY: guard buffers describe exactly the accessible ranges
        let rc = guard(|| unsafe { mz_deflate(s, fl) }).map_err(|pm| Violation::new(panic_sig("c17:mz_deflate", &pm), format!("mz_deflate unwound: {pm}")))?;
        let (din, dout) = check_accounting("mz_deflate", before, s)?;
        *calls += 1;
        // Rust side
        let mut ro = vec![0u8; osz];
        let rr = deflate(r, &x[ipos..ipos + take], &mut ro, mzflush_of(fl).ok_or_else(|| Violation::new("c17:harness", "flush"))?);
        vensure!(rc == rc_of(rr.status) && din == rr.bytes_consumed && dout == rr.bytes_written, "c17:deflate-differs-from-rust", "call #{calls}: mz_deflate(flush {fl}, avail_in {take}, avail_out {osz}) -> ({rc}, in {din}, out {dout}) but stream::deflate -> ({:?}, in {}, out {})", rr.status, rr.bytes_consumed, rr.bytes_written);
        vensure!(gout.as_slice()[..dout] == ro[..dout], "c17:deflate-bytes-differ", "call #{calls}: bytes written by mz_deflate differ from stream::deflate");
        vensure!(s.adler as u32 == r.adler32(), "c17:deflate-adler", "stream.adler {:#x} vs CompressorOxide::adler32 {:#x}", s.adler, r.adler32());
        if dout == osz && rc == 0 {
            *pending_small = true;
        }
        ipos += din;
        let _ = gout.as_mut_slice();
        if rc == 1 || rc < 0 && rc != -5 || *calls > x.len() as u64 * 2 + 200_000 {
            break;
        }
    }
    Ok(())
}

#[allow(clippy::too_many_arguments)]
fn c_deflate(data: &Recipe, level: i32, raw: bool, strategy: i32, pre: Option<&[(u32, u32, i8)]>, steps: &[(u32, u32, i8)], finish_out: u32, end_align: bool, cx: &mut Ctx) -> Check {
    let x = data.expand();
    let wb = if raw { -15 } else { 15 };
    let mut s = mz_stream::default();
    // SAFETY: valid zeroed stream
    let rc = unsafe { mz_deflateInit2(&mut s, level, 8, wb, 9, strategy) };
    vensure!(rc == 0, "c17:deflate-init", "mz_deflateInit2 returned {rc}");
    let mut r = CompressorOxide::new(create_comp_flags_from_zip_params(level, wb, strategy) | deflate_flags::TDEFL_COMPUTE_ADLER32);
    let mut calls = 0u64;
    let mut pending_small = false;
    if let Some(pre) = pre {
        // an earlier (complete, partial or empty) stream on the same object, then mz_deflateReset;
        // the Rust counterpart is CompressorOxide::reset()
        deflate_phase(&mut s, &mut r, &x, pre, None, end_align, &mut calls, &mut pending_small)?;
        let used = s.total_in;
        if finish_out % 3 == 2 {
            // instead of a reset: mz_deflateEnd, then mz_deflateInit2 on the same object with OTHER
            // parameters first and the case's parameters second (the second Init meets a live state);
            // the Rust counterpart of each Init is a new compressor
            // SAFETY: initialised stream object throughout
            let (e, i1, i2) = unsafe { (mz_deflateEnd(&mut s), mz_deflateInit2(&mut s, (level + 4).rem_euclid(11), 8, -wb, 9, 0), mz_deflateInit2(&mut s, level, 8, wb, 9, strategy)) };
            vensure!(e == 0 && i1 == 0 && i2 == 0 && s.total_in == 0 && s.total_out == 0, "c17:deflate-reinit", "End/Init2/Init2 on a used stream object returned ({e}, {i1}, {i2}), totals ({}, {})", s.total_in, s.total_out);
            r = CompressorOxide::new(create_comp_flags_from_zip_params(level, wb, strategy) | deflate_flags::TDEFL_COMPUTE_ADLER32);
            cx.class("deflate-history:end+init2(other)+init2");
        } else {
            // SAFETY: initialised stream
            let rc = guard(|| unsafe { mz_deflateReset(&mut s) }).map_err(|pm| Violation::new(panic_sig("c17:mz_deflateReset", &pm), format!("unwound: {pm}")))?;
            vensure!(rc == 0 && s.total_in == 0 && s.total_out == 0, "c17:deflateReset", "mz_deflateReset returned {rc}, totals ({}, {})", s.total_in, s.total_out);
            r.reset();
            cx.class(&format!("deflate-history:reset-after-{}-calls,{}", pre.len(), if used == 0 { "no-input-consumed" } else { "input-consumed" }));
        }
    }
    deflate_phase(&mut s, &mut r, &x, steps, Some(finish_out), end_align, &mut calls, &mut pending_small)?;
    // SAFETY: initialised stream
    let e = unsafe { mz_deflateEnd(&mut s) };
    vensure!(e == 0, "c17:deflate-end", "mz_deflateEnd returned {e}");
    cx.evals(calls);
    if calls >= 3 && pending_small {
        cx.nontrivial();
    }
    cx.class("fn:mz_deflate");
    Ok(())
}

fn c_inflate(input: &AnyInput, steps: &[(u32, u32, i8)], end_align: bool, cx: &mut Ctx) -> Check {
    let Some((data, zl)) = input.bytes(cx) else { return Ok(()) };
    let wb = if zl { 15 } else { -15 };
    let mut s = mz_stream::default();
    // SAFETY: valid zeroed stream
    let rc = unsafe { mz_inflateInit2(&mut s, wb) };
    vensure!(rc == 0, "c17:inflate-init", "mz_inflateInit2 returned {rc}");
    let mut r = InflateState::new_boxed_with_window_bits(wb);
    let mut ipos = 0usize;
    let mut calls = 0u64;
    let mut pending_small = false;
    for &(a, b, f) in steps {
        let take = (a as usize).min(data.len() - ipos);
        let osz = b as usize;
        let gin = GuardBuf::from_slice(&data[ipos..ipos + take], al(end_align));
        let gout = GuardBuf::new(osz, al(end_align));
        s.next_in = gin.ptr();
        s.avail_in = take as c_uint;
        s.next_out = gout.ptr();
        s.avail_out = osz as c_uint;
        let before = snap(&s);
        // SAFETY: guard buffers describe exactly the accessible ranges
        let rc = guard(|| unsafe { mz_inflate(&mut s, f as c_int) }).map_err(|pm| Violation::new(panic_sig("c17:mz_inflate", &pm), format!("mz_inflate unwound: {pm}")))?;
        let (din, dout) = check_accounting("mz_inflate", before, &s)?;
        calls += 1;
        let mut ro = vec![0u8; osz];
        let rr = inflate(&mut r, &data[ipos..ipos + take], &mut ro, mzflush_of(f as i32).ok_or_else(|| Violation::new("c17:harness", "flush"))?);
        vensure!(rc == rc_of(rr.status) && din == rr.bytes_consumed && dout == rr.bytes_written, "c17:inflate-differs-from-rust", "call #{calls}: mz_inflate -> ({rc}, in {din}, out {dout}) but stream::inflate -> ({:?}, in {}, out {})", rr.status, rr.bytes_consumed, rr.bytes_written);
        vensure!(gout.as_slice()[..dout] == ro[..dout], "c17:inflate-bytes-differ", "call #{calls}: bytes written by mz_inflate differ from stream::inflate");
        if dout == osz && rc == 0 {
            pending_small = true;
        }
        ipos += din;
    }
    // SAFETY: initialised stream
    let e = unsafe { mz_inflateEnd(&mut s) };
    vensure!(e == 0, "c17:inflate-end", "mz_inflateEnd returned {e}");
    cx.evals(calls);
    if calls >= 3 && pending_small {
        cx.nontrivial();
    }
    cx.class("fn:mz_inflate");
    Ok(())
}

fn c_oneshot(data: &Recipe, level: i32, dest_delta: i32, end_align: bool, cx: &mut Ctx) -> Check {
    let x = data.expand();
    // SAFETY: pure function
    let bound = mz_compressBound(x.len() as c_ulong) as usize;
    let dest_len = (bound as i64 + dest_delta as i64).max(0) as usize;
    let gin = GuardBuf::from_slice(&x, al(end_align));
    let gout = GuardBuf::new(dest_len, al(end_align));
    let mut dl = dest_len as c_ulong;
    // SAFETY: guard buffers
    let rc = guard(|| unsafe { mz_compress2(gout.ptr(), &mut dl, gin.ptr(), x.len() as c_ulong, level) }).map_err(|pm| Violation::new(panic_sig("c17:mz_compress2", &pm), format!("mz_compress2 unwound: {pm}")))?;
    // Rust: one Finish call
    let mut c = CompressorOxide::new(create_comp_flags_from_zip_params(level, 15, 0) | deflate_flags::TDEFL_COMPUTE_ADLER32);
    let mut ro = vec![0u8; dest_len];
    let (want_rc, want_len) = if dest_len == 0 {
        (-5, 0)
    } else {
        let rr = deflate(&mut c, &x, &mut ro, MZFlush::Finish);
        match rr.status {
            Ok(MZStatus::StreamEnd) => (0, rr.bytes_written),
            Ok(MZStatus::Ok) => (-5, 0),
            other => (rc_of(other), 0),
        }
    };
    vensure!(rc == want_rc, "c17:compress2-status", "mz_compress2(dest {dest_len}, level {level}) returned {rc}, one Finish call through the Rust API maps to {want_rc}");
    if rc == 0 {
        vensure!(dl as usize == want_len && gout.as_slice()[..want_len] == ro[..want_len], "c17:compress2-bytes", "mz_compress2 wrote {} bytes, Rust call {want_len}", dl);
        if dest_delta == 0 {
            // mz_compress (default level) with the same buffers, and mz_uncompress round trip
            let gun = GuardBuf::new(x.len(), al(end_align));
            let mut ul = x.len() as c_ulong;
            // SAFETY: guard buffers
            let urc = guard(|| unsafe { mz_uncompress(gun.ptr(), &mut ul, gout.ptr(), dl) }).map_err(|pm| Violation::new(panic_sig("c17:mz_uncompress", &pm), format!("mz_uncompress unwound: {pm}")))?;
            vensure!(urc == 0 && ul as usize == x.len() && gun.as_slice() == &x[..], "c17:uncompress-roundtrip", "mz_uncompress of mz_compress2 output: rc {urc}, len {ul} (want {})", x.len());
        }
    }
    cx.evals(1);
    cx.class("fn:mz_compress2");
    if dest_delta < 0 {
        cx.nontrivial();
    }
    Ok(())
}

fn c_uncompress(input: &AnyInput, dest_len: usize, end_align: bool, cx: &mut Ctx) -> Check {
    let Some((data, _)) = input.bytes(cx) else { return Ok(()) };
    let gin = GuardBuf::from_slice(&data, al(end_align));
    let gout = GuardBuf::new(dest_len, al(end_align));
    let mut dl = dest_len as c_ulong;
    // SAFETY: guard buffers
    let rc = guard(|| unsafe { mz_uncompress(gout.ptr(), &mut dl, gin.ptr(), data.len() as c_ulong) }).map_err(|pm| Violation::new(panic_sig("c17:mz_uncompress", &pm), format!("mz_uncompress unwound: {pm}")))?;
    // Rust: inflate Finish once with miniz's documented mapping
    let mut st = InflateState::new_boxed_with_window_bits(15);
    let mut ro = vec![0u8; dest_len];
    let rr = inflate(&mut st, &data, &mut ro, MZFlush::Finish);
    let empty_in = rr.bytes_consumed == data.len();
    let want = match (rr.status, empty_in) {
        (Ok(MZStatus::StreamEnd), _) => 0,
        (Err(miniz_oxide::MZError::Buf), true) => -3,
        (s, _) => rc_of(s),
    };
    vensure!(rc == want, "c17:uncompress-status", "mz_uncompress returned {rc}; inflate(Finish) once through the Rust API gives {:?} -> {want}", rr.status);
    if rc == 0 {
        vensure!(dl as usize == rr.bytes_written && gout.as_slice()[..rr.bytes_written] == ro[..rr.bytes_written], "c17:uncompress-bytes", "mz_uncompress wrote {dl} bytes, Rust {}", rr.bytes_written);
    }
    cx.evals(1);
    cx.class("fn:mz_uncompress");
    if rc != 0 {
        cx.nontrivial();
    }
    Ok(())
}

fn c_tinfl(input: &AnyInput, flags: u32, out_len: usize, start: usize, mode: u8, end_align: bool, cx: &mut Ctx) -> Check {
    let Some((data, _)) = input.bytes(cx) else { return Ok(()) };
    let gin = GuardBuf::from_slice(&data, al(end_align));
    match mode % 4 {
        3 => {
            // tinfl_decompress driven like a C caller would: input in chunks, one output buffer that is
            // (when the stream is valid) exactly as large as the decompressed data, out_buf_next advancing
            let zl = flags & TINFL_FLAG_PARSE_ZLIB_HEADER != 0;
            let base = (flags & (TINFL_FLAG_PARSE_ZLIB_HEADER | TINFL_FLAG_COMPUTE_ADLER32)) | TINFL_FLAG_USING_NON_WRAPPING_OUTPUT_BUF;
            let total = match if zl { miniz_oxide::inflate::decompress_to_vec_zlib(&data) } else { miniz_oxide::inflate::decompress_to_vec(&data) } {
                Ok(v) => v.len() + [0usize, 0, 1, 5][out_len % 4],
                Err(_) => out_len,
            };
            let chunk = start + 1;
            let gout = GuardBuf::new(total, al(end_align));
            // every other case: the object comes from tinfl_decompressor_alloc (+ tinfl_init, and a
            // first, abandoned use followed by tinfl_init again)
            let heap = out_len % 2 == 1;
            let mut local = tinfl_decompressor::default();
            // SAFETY: alloc/init/free as documented
            let dptr: *mut tinfl_decompressor = if heap { unsafe { tinfl_decompressor_alloc() } } else { &mut local };
            vensure!(!dptr.is_null(), "c17:tinfl_decompressor_alloc", "returned null");
            if heap {
                // SAFETY: live object
                unsafe {
                    tinfl_init(dptr);
                    if out_len % 4 == 3 && !data.is_empty() {
                        let mut scratch = [0u8; 64];
                        let (mut i, mut o) = (data.len().min(5), 64usize);
                        tinfl_decompress(dptr, data.as_ptr(), &mut i, scratch.as_mut_ptr(), scratch.as_mut_ptr(), &mut o, base | TINFL_FLAG_HAS_MORE_INPUT);
                        tinfl_init(dptr);
                    }
                }
                cx.class("tinfl:heap-object");
            }
            let mut r = DecompressorOxide::new();
            let mut ro = vec![0u8; total];
            let (mut ipos, mut opos) = (0usize, 0usize);
            let mut calls = 0;
            loop {
                let take = chunk.min(data.len() - ipos);
                let fl = base | if ipos + take < data.len() { TINFL_FLAG_HAS_MORE_INPUT } else { 0 };
                let gi = GuardBuf::from_slice(&data[ipos..ipos + take], al(end_align));
                let mut in_sz = take;
                let mut out_sz = total - opos;
                // SAFETY: guard buffers; next pointer inside (or one past) the buffer
                let st = guard(|| unsafe { tinfl_decompress(dptr, gi.ptr(), &mut in_sz, gout.ptr(), gout.ptr().add(opos), &mut out_sz, fl) }).map_err(|pm| Violation::new(panic_sig("c17:tinfl_decompress", &pm), format!("tinfl_decompress unwound: {pm}")))?;
                let (rs, rin, rout) = decompress(&mut r, &data[ipos..ipos + take], &mut ro, opos, fl);
                calls += 1;
                // SAFETY: live object
                let ca = unsafe { tinfl_get_adler32(dptr) };
                vensure!(ca == r.adler32().unwrap_or(0) as c_int, "c17:tinfl_get_adler32", "call #{calls}: tinfl_get_adler32 -> {ca:#x}, DecompressorOxide::adler32 -> {:?}", r.adler32());
                vensure!(st == rs as i32 && in_sz == rin && out_sz == rout, "c17:tinfl_decompress-differs", "call #{calls} (in {take}, out_pos {opos} of {total}): tinfl_decompress -> ({st}, {in_sz}, {out_sz}); core::decompress -> ({}, {rin}, {rout})", rs as i32);
                vensure!(gout.as_slice()[opos..opos + rout] == ro[opos..opos + rout], "c17:tinfl_decompress-bytes", "bytes differ");
                ipos += rin;
                opos += rout;
                if !(st == 1 || st == 2) || (st == 2 && opos == total) || calls > data.len() + total + 16 {
                    break;
                }
            }
            if heap {
                // SAFETY: allocated by tinfl_decompressor_alloc
                unsafe { tinfl_decompressor_free(dptr) };
            }
            // the shim's default allocator functions: contents survive a growing and a shrinking realloc
            {
                let n = 1 + out_len % 300;
                // SAFETY: alloc / realloc / free of the same block, accesses inside the current size
                unsafe {
                    let p = miniz_def_alloc_func(std::ptr::null_mut(), n, 1) as *mut u8;
                    vensure!(!p.is_null(), "c17:def_alloc", "miniz_def_alloc_func({n}, 1) returned null");
                    for i in 0..n {
                        *p.add(i) = (i * 7 + start) as u8;
                    }
                    let q = miniz_def_realloc_func(std::ptr::null_mut(), p as *mut c_void, 2, n + 17) as *mut u8;
                    vensure!(!q.is_null(), "c17:def_realloc", "miniz_def_realloc_func returned null");
                    let same = (0..n).all(|i| *q.add(i) == (i * 7 + start) as u8);
                    *q.add(2 * (n + 17) - 1) = 0x5a;
                    let q2 = miniz_def_realloc_func(std::ptr::null_mut(), q as *mut c_void, 1, n.div_ceil(2)) as *mut u8;
                    let same2 = !q2.is_null() && (0..n.div_ceil(2)).all(|i| *q2.add(i) == (i * 7 + start) as u8);
                    miniz_def_free_func(std::ptr::null_mut(), q2 as *mut c_void);
                    vensure!(same && same2, "c17:def_realloc-contents", "contents not preserved by miniz_def_realloc_func (grow {same}, shrink {same2})");
                }
            }
            cx.evals(calls as u64);
            cx.class("fn:tinfl_decompress(chunked)");
        }
        0 => {
            // tinfl_decompress: out_buf_start .. out_buf_next .. + *out_buf_size
            let flat = flags & TINFL_FLAG_USING_NON_WRAPPING_OUTPUT_BUF != 0;
            // ring mode needs a power-of-two total size for a usable geometry; pick the geometry first
            let total = if flat { out_len + start } else { (out_len + start).next_power_of_two().max(1) };
            let start = start.min(total);
            let gout = GuardBuf::new(total, al(end_align));
            let mut d = tinfl_decompressor::default();
            let mut in_sz = data.len();
            let mut out_sz = total - start;
            // SAFETY: guard buffers; next pointer inside the buffer
            let st = guard(|| unsafe { tinfl_decompress(&mut d, gin.ptr(), &mut in_sz, gout.ptr(), gout.ptr().add(start), &mut out_sz, flags) }).map_err(|pm| Violation::new(panic_sig("c17:tinfl_decompress", &pm), format!("tinfl_decompress unwound: {pm}")))?;
            let mut r = DecompressorOxide::new();
            let mut ro = vec![0u8; total];
            let (rs, rin, rout) = decompress(&mut r, &data, &mut ro, start, flags);
            vensure!(st == rs as i32 && in_sz == rin && out_sz == rout, "c17:tinfl_decompress-differs", "tinfl_decompress -> ({st}, {in_sz}, {out_sz}); core::decompress -> ({}, {rin}, {rout})", rs as i32);
            vensure!(gout.as_slice()[start..start + rout] == ro[start..start + rout], "c17:tinfl_decompress-bytes", "bytes differ");
            vensure!(in_sz <= data.len() && out_sz <= total - start, "c17:tinfl_decompress-counts", "counts beyond buffers");
            cx.class("fn:tinfl_decompress");
        }
        1 => {
            let gout = GuardBuf::new(out_len, al(end_align));
            // SAFETY: guard buffers
            let n = guard(|| unsafe { tinfl_decompress_mem_to_mem(gout.ptr() as *mut c_void, out_len, gin.ptr() as *const c_void, data.len(), flags as c_int) }).map_err(|pm| Violation::new(panic_sig("c17:tinfl_decompress_mem_to_mem", &pm), format!("unwound: {pm}")))?;
            let mut r = DecompressorOxide::new();
            let mut ro = vec![0u8; out_len];
            let (rs, _rin, rout) = decompress(&mut r, &data, &mut ro, 0, (flags & !TINFL_FLAG_HAS_MORE_INPUT) | TINFL_FLAG_USING_NON_WRAPPING_OUTPUT_BUF);
            let want = if rs == TINFLStatus::Done { rout } else { usize::MAX };
            vensure!(n == want, "c17:mem_to_mem-differs", "tinfl_decompress_mem_to_mem returned {n}, Rust call gives {want} ({})", status_name(rs));
            if want != usize::MAX {
                vensure!(gout.as_slice()[..rout] == ro[..rout], "c17:mem_to_mem-bytes", "bytes differ");
            }
            cx.class("fn:tinfl_decompress_mem_to_mem");
        }
        _ => {
            let mut len: usize = 12345;
            // SAFETY: guard buffer for the source; result freed with the shim's own free function
            let p = guard(|| unsafe { tinfl_decompress_mem_to_heap(gin.ptr() as *const c_void, data.len(), &mut len, flags as c_int) }).map_err(|pm| Violation::new(panic_sig("c17:tinfl_decompress_mem_to_heap", &pm), format!("unwound: {pm}")))?;
            // Rust: grow-and-retry loop == decompress_to_vec semantics with the given flags
            let zl = flags & TINFL_FLAG_PARSE_ZLIB_HEADER != 0;
            let want = if flags & (TINFL_FLAG_COMPUTE_ADLER32 | TINFL_FLAG_IGNORE_ADLER32) == 0 { Some(if zl { miniz_oxide::inflate::decompress_to_vec_zlib(&data) } else { miniz_oxide::inflate::decompress_to_vec(&data) }) } else { None };
            if let Some(w) = want {
                match w {
                    Ok(v) => {
                        vensure!(!p.is_null() && len == v.len(), "c17:mem_to_heap-differs", "tinfl_decompress_mem_to_heap: ptr null={} len {len}; Rust Ok({})", p.is_null(), v.len());
                        // SAFETY: p points to at least len bytes allocated by the shim
                        let got = unsafe { std::slice::from_raw_parts(p as *const u8, len) };
                        vensure!(got == &v[..], "c17:mem_to_heap-bytes", "bytes differ");
                    }
                    Err(_) => vensure!(p.is_null() && len == 0, "c17:mem_to_heap-differs", "Rust call fails but mem_to_heap returned ptr null={} len {len}", p.is_null()),
                }
            } else {
                vensure!(p.is_null() == (len == 0) || !p.is_null(), "c17:mem_to_heap-len", "null with len {len}");
            }
            if !p.is_null() {
                // SAFETY: allocated by miniz_def_alloc_func/realloc
                unsafe { miniz_def_free_func(std::ptr::null_mut(), p) };
            }
            cx.class("fn:tinfl_decompress_mem_to_heap");
        }
    }
    cx.evals(1);
    if data.len() > 2 {
        cx.nontrivial();
    }
    Ok(())
}

struct Sink {
    data: Vec<u8>,
}

struct RefusingSink {
    calls: usize,
    refuse_at: usize,
    got: usize,
}

unsafe extern "C" fn refusing_put(_buf: *const c_void, len: c_int, user: *mut c_void) -> i32 {
    let s = &mut *(user as *mut RefusingSink);
    s.calls += 1;
    if s.calls - 1 == s.refuse_at {
        return 0;
    }
    s.got += len as usize;
    1
}

unsafe extern "C" fn sink_put(buf: *const c_void, len: c_int, user: *mut c_void) -> i32 {
    let s = &mut *(user as *mut Sink);
    s.data.extend_from_slice(std::slice::from_raw_parts(buf as *const u8, len as usize));
    1
}

#[allow(clippy::too_many_arguments)]
fn c_tdefl(data: &Recipe, level: i32, zlib: bool, strategy: i32, mode: u8, chunks: &[u32], out_len: usize, end_align: bool, cx: &mut Ctx) -> Check {
    let x = data.expand();
    let flags = create_comp_flags_from_zip_params(level, if zlib { 15 } else { -15 }, strategy);
    // SAFETY: pure function
    let cflags = tdefl_create_comp_flags_from_zip_params(level, if zlib { 15 } else { -15 }, strategy);
    vensure!(cflags == flags, "c17:create_comp_flags", "tdefl_create_comp_flags_from_zip_params {cflags:#x} vs Rust {flags:#x}");
    // reference bytes: one Finish call with a big buffer
    let mut rc = CompressorOxide::new(flags);
    let mut big = vec![0u8; x.len() + x.len() / 4 + 4096];
    let (st, _ci, co) = compress(&mut rc, &x, &mut big, TDEFLFlush::Finish);
    vensure!(st == TDEFLStatus::Done, "c17:harness", "reference compress: {st:?}");
    let want = &big[..co];
    let gin = GuardBuf::from_slice(&x, al(end_align));
    match mode % 6 {
        4 | 5 => {
            // histories on one tdefl compressor object: an earlier tdefl_init (callback or buffer
            // mode, same or different flags) with or without some use, then tdefl_init again and a
            // complete stream through the callback (mode 4: tdefl_compress_buffer) or into buffers
            // (mode 5: tdefl_compress), compared call by call with a fresh Rust compressor
            let h = out_len;
            let (pre, pre_cb, pre_same, pre_use, pre_finish) = (h & 1 == 1, h & 2 == 2, h & 4 == 4, h & 8 == 8, h & 16 == 16);
            let final_cb = mode % 6 == 4;
            // SAFETY: allocate/init/deallocate as documented
            let c = unsafe { tdefl_allocate() };
            let mut pre_sink = Sink { data: Vec::new() };
            if pre {
                let f1 = if pre_same { flags } else { create_comp_flags_from_zip_params((level + 1).rem_euclid(11), if zlib { -15 } else { 15 }, 0) };
                // SAFETY: live compressor; the sink outlives every call made while it is installed
                let ist = unsafe { tdefl_init(c.as_mut(), if pre_cb { Some(sink_put) } else { None }, if pre_cb { &mut pre_sink as *mut Sink as *mut c_void } else { std::ptr::null_mut() }, f1 as c_int) } as i32;
                vensure!(ist == 0, "c17:tdefl_init", "first tdefl_init returned {ist}");
                if pre_use {
                    let take = x.len().min(1 + h % 700);
                    let g = GuardBuf::from_slice(&x[..take], al(end_align));
                    let fl = if pre_finish { tdefl_flush::TDEFL_FINISH } else { tdefl_flush::TDEFL_NO_FLUSH };
                    if pre_cb {
                        // SAFETY: guard buffer
                        let st = unsafe { tdefl_compress_buffer(c.as_mut(), g.ptr() as *const c_void, take, fl) } as i32;
                        vensure!(st == pre_finish as i32, "c17:tdefl_compress_buffer-status", "first use of the compressor: tdefl_compress_buffer returned {st}");
                    } else {
                        let go = GuardBuf::new(64, al(end_align));
                        let (mut isz, mut osz) = (take, 64usize);
                        // SAFETY: guard buffers
                        let st = unsafe { tdefl_compress(c.as_mut(), g.ptr() as *const c_void, Some(&mut isz), go.ptr() as *mut c_void, Some(&mut osz), fl) } as i32;
                        vensure!(st >= 0 && isz <= take && osz <= 64, "c17:tdefl_compress-status", "first use of the compressor: ({st}, {isz}, {osz})");
                    }
                }
            }
            let mut sink = Sink { data: Vec::new() };
            // SAFETY: live compressor; the sink outlives every call made while it is installed
            let ist = unsafe { tdefl_init(c.as_mut(), if final_cb { Some(sink_put) } else { None }, if final_cb { &mut sink as *mut Sink as *mut c_void } else { std::ptr::null_mut() }, flags as c_int) } as i32;
            vensure!(ist == 0, "c17:tdefl_init", "tdefl_init returned {ist}");
            let mut r = CompressorOxide::new(flags);
            let mut rsink: Vec<u8> = Vec::new();
            let mut pos = 0usize;
            let mut i = 0usize;
            let osz = 1 + (h >> 5);
            let mut n = 0u64;
            loop {
                let last = i >= chunks.len();
                let take = if last { x.len() - pos } else { (chunks[i] as usize).min(x.len() - pos) };
                i += 1;
                let g = GuardBuf::from_slice(&x[pos..pos + take], al(end_align));
                let (cfl, rfl) = if last { (tdefl_flush::TDEFL_FINISH, TDEFLFlush::Finish) } else if take % 5 == 4 { (tdefl_flush::TDEFL_SYNC_FLUSH, TDEFLFlush::Sync) } else if take % 5 == 3 { (tdefl_flush::TDEFL_FULL_FLUSH, TDEFLFlush::Full) } else { (tdefl_flush::TDEFL_NO_FLUSH, TDEFLFlush::None) };
                let (st, cin, rs, rin);
                if final_cb {
                    let before = sink.data.len();
                    // SAFETY: guard buffer; the callback writes into `sink`
                    st = guard(|| unsafe { tdefl_compress_buffer(c.as_mut(), g.ptr() as *const c_void, take, cfl) } as i32).map_err(|pm| Violation::new(panic_sig("c17:tdefl_compress_buffer", &pm), format!("unwound: {pm}")))?;
                    let (a, b) = miniz_oxide::deflate::core::compress_to_output(&mut r, &x[pos..pos + take], rfl, |o: &[u8]| {
                        rsink.extend_from_slice(o);
                        true
                    });
                    rs = a as i32;
                    rin = b;
                    cin = rin; // tdefl_compress_buffer does not report the count
                    vensure!(st == rs && sink.data == rsink, "c17:tdefl_compress_buffer-differs", "after {} earlier init(s) (callback {pre_cb}, same flags {pre_same}, used {pre_use}, finished {pre_finish}): tdefl_compress_buffer -> {st}, callback got {} new bytes ({} in total); compress_to_output -> {rs}, {} bytes in total", pre as u8, sink.data.len() - before, sink.data.len(), rsink.len());
                } else {
                    let osz = if n > 3000 { 1usize << 17 } else { osz }; // bounded number of tiny-buffer calls (see deflate_phase)
                    let go = GuardBuf::new(osz, al(end_align));
                    let (mut isz, mut osz2) = (take, osz);
                    // SAFETY: guard buffers
                    st = guard(|| unsafe { tdefl_compress(c.as_mut(), g.ptr() as *const c_void, Some(&mut isz), go.ptr() as *mut c_void, Some(&mut osz2), cfl) } as i32).map_err(|pm| Violation::new(panic_sig("c17:tdefl_compress", &pm), format!("unwound: {pm}")))?;
                    let mut ro = vec![0u8; osz];
                    let (a, b, rout) = compress(&mut r, &x[pos..pos + take], &mut ro, rfl);
                    rs = a as i32;
                    rin = b;
                    cin = isz;
                    vensure!(st == rs && isz == rin && osz2 == rout && go.as_slice()[..rout] == ro[..rout], "c17:tdefl_compress-differs", "after {} earlier init(s) (callback {pre_cb}, same flags {pre_same}, used {pre_use}): tdefl_compress -> ({st}, {isz}, {osz2}); core::compress -> ({rs}, {rin}, {rout})", pre as u8);
                    rsink.extend_from_slice(&ro[..rout]);
                }
                // SAFETY: live compressor
                let (ps, pa) = unsafe { (tdefl_get_prev_return_status(c.as_mut()) as i32, tdefl_get_adler32(c.as_mut())) };
                vensure!(ps == r.prev_return_status() as i32 && pa == r.adler32(), "c17:tdefl-getters", "prev status {ps} / adler {pa:#x} vs Rust {} / {:#x}", r.prev_return_status() as i32, r.adler32());
                pos += cin;
                n += 1;
                if st != 0 || n > x.len() as u64 * 2 + 100_000 {
                    break;
                }
            }
            // SAFETY: allocated by tdefl_allocate
            unsafe { tdefl_deallocate(c) };
            // the finished stream is the plaintext again
            let back = if zlib { miniz_oxide::inflate::decompress_to_vec_zlib(&rsink) } else { miniz_oxide::inflate::decompress_to_vec(&rsink) };
            vensure!(back.ok().as_deref() == Some(&x[..]), "c17:tdefl-history-stream", "stream produced after re-initialisation does not decode to the input");
            cx.evals(n);
            cx.class(if final_cb { "fn:tdefl_compress_buffer(callback, after re-init history)" } else { "fn:tdefl_compress(after re-init history)" });
            cx.class(&format!("tdefl-history:pre={}{}{}{}", pre as u8, if pre && pre_cb { ",cb" } else { "" }, if pre && pre_same { ",same-flags" } else { "" }, if pre && pre_use { ",used" } else { "" }));
        }
        0 => {
            // tdefl_compress into buffers, chunked input, Finish at the end; compared call by call
            // SAFETY: allocate/init/deallocate as documented
            let c = unsafe { tdefl_allocate() };
            let ist = unsafe { tdefl_init(c.as_mut(), None, std::ptr::null_mut(), flags as c_int) } as i32;
            vensure!(ist == 0, "c17:tdefl_init", "tdefl_init returned {ist}");
            let mut r = CompressorOxide::new(flags);
            let mut pos = 0usize;
            let mut i = 0usize;
            let osz = out_len.max(1);
            let mut n = 0u64;
            loop {
                let last = i >= chunks.len();
                let take = if last { x.len() - pos } else { (chunks[i] as usize).min(x.len() - pos) };
                i += 1;
                let g = GuardBuf::from_slice(&x[pos..pos + take], al(end_align));
                let osz = if n > 3000 { 1usize << 17 } else { osz }; // bounded number of tiny-buffer calls (see deflate_phase)
                let go = GuardBuf::new(osz, al(end_align));
                let mut isz = take;
                let mut osz2 = osz;
                // SAFETY: guard buffers; sizes by reference as the C API wants
                let (cfl, rfl) = if last { (tdefl_flush::TDEFL_FINISH, TDEFLFlush::Finish) } else if take % 7 == 6 { (tdefl_flush::TDEFL_SYNC_FLUSH, TDEFLFlush::Sync) } else if take % 7 == 5 { (tdefl_flush::TDEFL_FULL_FLUSH, TDEFLFlush::Full) } else { (tdefl_flush::TDEFL_NO_FLUSH, TDEFLFlush::None) };
                let st = unsafe { tdefl_compress(c.as_mut(), g.ptr() as *const c_void, Some(&mut isz), go.ptr() as *mut c_void, Some(&mut osz2), cfl) } as i32;
                let mut ro = vec![0u8; osz];
                let (rs, rin, rout) = compress(&mut r, &x[pos..pos + take], &mut ro, rfl);
                vensure!(st == rs as i32 && isz == rin && osz2 == rout && go.as_slice()[..rout] == ro[..rout], "c17:tdefl_compress-differs", "tdefl_compress -> ({st}, {isz}, {osz2}); core::compress -> ({}, {rin}, {rout})", rs as i32);
                // SAFETY: live compressor
                let (ps, pa) = unsafe { (tdefl_get_prev_return_status(c.as_mut()) as i32, tdefl_get_adler32(c.as_mut())) };
                vensure!(ps == r.prev_return_status() as i32 && pa == r.adler32(), "c17:tdefl-getters", "prev status {ps} / adler {pa:#x} vs Rust {} / {:#x}", r.prev_return_status() as i32, r.adler32());
                pos += rin;
                n += 1;
                if st != 0 || n > x.len() as u64 + 100_000 {
                    break;
                }
            }
            // SAFETY: allocated by tdefl_allocate
            unsafe { tdefl_deallocate(c) };
            cx.evals(n);
            cx.class("fn:tdefl_compress");
        }
        1 => {
            let go = GuardBuf::new(out_len, al(end_align));
            // SAFETY: guard buffers
            let n = guard(|| unsafe { tdefl_compress_mem_to_mem(go.ptr() as *mut c_void, out_len, gin.ptr() as *const c_void, x.len(), flags as c_int) }).map_err(|pm| Violation::new(panic_sig("c17:tdefl_compress_mem_to_mem", &pm), format!("unwound: {pm}")))?;
            if want.len() <= out_len {
                vensure!(n == want.len() && go.as_slice()[..n] == want[..], "c17:tdefl_mem_to_mem-differs", "tdefl_compress_mem_to_mem returned {n}, Rust compress gives {} bytes (out_len {out_len})", want.len());
            } else {
                vensure!(n == 0, "c17:tdefl_mem_to_mem-differs", "output ({}) does not fit in {out_len} but {n} was returned", want.len());
            }
            // destinations around and below the needed size (a stream of several blocks may have a
            // small last block that would fit on its own)
            for dl in [want.len(), want.len().saturating_sub(1), want.len() + 1, want.len() / 2, want.len() * 3 / 4, want.len() / 8, 1, 0] {
                let go = GuardBuf::new(dl, al(end_align));
                // SAFETY: guard buffers
                let n = guard(|| unsafe { tdefl_compress_mem_to_mem(go.ptr() as *mut c_void, dl, gin.ptr() as *const c_void, x.len(), flags as c_int) }).map_err(|pm| Violation::new(panic_sig("c17:tdefl_compress_mem_to_mem", &pm), format!("unwound: {pm}")))?;
                if want.len() <= dl {
                    vensure!(n == want.len() && go.as_slice()[..n] == want[..], "c17:tdefl_mem_to_mem-differs", "tdefl_compress_mem_to_mem returned {n}, Rust compress gives {} bytes (destination {dl})", want.len());
                } else {
                    vensure!(n == 0, "c17:tdefl_mem_to_mem-differs", "output ({} bytes) does not fit in a destination of {dl} but {n} was returned", want.len());
                }
                cx.evals(1);
            }
            cx.class("fn:tdefl_compress_mem_to_mem");
        }
        2 => {
            let mut len = 777usize;
            // SAFETY: guard buffer for the source
            let p = guard(|| unsafe { tdefl_compress_mem_to_heap(gin.ptr() as *const c_void, x.len(), &mut len, flags as c_int) }).map_err(|pm| Violation::new(panic_sig("c17:tdefl_compress_mem_to_heap", &pm), format!("unwound: {pm}")))?;
            vensure!(!p.is_null() && len == want.len(), "c17:tdefl_mem_to_heap-differs", "tdefl_compress_mem_to_heap: null={} len {len}, Rust {}", p.is_null(), want.len());
            // SAFETY: len bytes allocated by the shim
            let got = unsafe { std::slice::from_raw_parts(p as *const u8, len) };
            vensure!(got == want, "c17:tdefl_mem_to_heap-bytes", "bytes differ");
            // SAFETY: allocated by the shim's allocator
            unsafe { miniz_def_free_func(std::ptr::null_mut(), p) };
            cx.class("fn:tdefl_compress_mem_to_heap");
        }
        _ => {
            let mut sink = Sink { data: Vec::new() };
            // SAFETY: callback and user pointer outlive the call
            let ok = guard(|| unsafe { tdefl_compress_mem_to_output(gin.ptr() as *const c_void, x.len(), Some(sink_put), &mut sink as *mut Sink as *mut c_void, flags as c_int) }).map_err(|pm| Violation::new(panic_sig("c17:tdefl_compress_mem_to_output", &pm), format!("unwound: {pm}")))?;
            vensure!(ok != 0 && sink.data == want, "c17:tdefl_mem_to_output-differs", "tdefl_compress_mem_to_output: ok {ok}, {} bytes vs Rust {}", sink.data.len(), want.len());
            // a callback that refuses its k-th invocation: failure must be reported, as by the Rust call
            {
                let k = out_len % 3;
                let mut rs = RefusingSink { calls: 0, refuse_at: k, got: 0 };
                // SAFETY: callback and user pointer outlive the call
                let ok = guard(|| unsafe { tdefl_compress_mem_to_output(gin.ptr() as *const c_void, x.len(), Some(refusing_put), &mut rs as *mut RefusingSink as *mut c_void, flags as c_int) }).map_err(|pm| Violation::new(panic_sig("c17:tdefl_compress_mem_to_output", &pm), format!("unwound: {pm}")))?;
                let mut rc2 = CompressorOxide::new(flags);
                let mut calls = 0usize;
                let (rst, _) = miniz_oxide::deflate::core::compress_to_output(&mut rc2, &x, TDEFLFlush::Finish, |_o: &[u8]| {
                    calls += 1;
                    calls - 1 != k
                });
                let refused = rs.calls > k;
                vensure!((ok != 0) == (rst == TDEFLStatus::Done) && (!refused || ok == 0), "c17:tdefl_mem_to_output-refusal", "callback refusing invocation #{k} (it was invoked {} times, {} bytes accepted): tdefl_compress_mem_to_output returned {ok}; compress_to_output with the same callback returned {rst:?}", rs.calls, rs.got);
                cx.evals(1);
            }
            cx.class("fn:tdefl_compress_mem_to_output");
        }
    }
    cx.evals(1);
    if x.len() > 3 {
        cx.nontrivial();
    }
    Ok(())
}

fn c_params(level: i32, method: i32, window: i32, mem_level: i32, strategy: i32, flush: i32, cx: &mut Ctx) -> Check {
    let legal = method == 8 && (1..=9).contains(&mem_level) && (window == 15 || window == -15);
    let mut s = mz_stream::default();
    // SAFETY: valid zeroed stream
    let rc = guard(|| unsafe { mz_deflateInit2(&mut s, level, method, window, mem_level, strategy) }).map_err(|pm| Violation::new(panic_sig("c17:mz_deflateInit2", &pm), format!("unwound: {pm}")))?;
    vensure!((rc == 0) == legal && (legal || rc < 0), "c17:deflateInit2-params", "mz_deflateInit2({level}, {method}, {window}, {mem_level}, {strategy}) returned {rc}; legal = {legal}");
    if rc == 0 {
        let inp = b"parameter probe parameter probe";
        let mut out = [0u8; 256];
        s.next_in = inp.as_ptr();
        s.avail_in = inp.len() as c_uint;
        s.next_out = out.as_mut_ptr();
        s.avail_out = out.len() as c_uint;
        // SAFETY: live buffers
        let r = guard(|| unsafe { mz_deflate(&mut s, flush) }).map_err(|pm| Violation::new(panic_sig("c17:mz_deflate", &pm), format!("unwound: {pm}")))?;
        let flush_legal = (0..=4).contains(&flush);
        vensure!(flush_legal == (r >= 0), "c17:deflate-flush-param", "mz_deflate(flush {flush}) returned {r}");
        // SAFETY: initialised stream
        unsafe { mz_deflateEnd(&mut s) };
    }
    let mut s = mz_stream::default();
    // SAFETY: valid zeroed stream
    let rc = guard(|| unsafe { mz_inflateInit2(&mut s, window) }).map_err(|pm| Violation::new(panic_sig("c17:mz_inflateInit2", &pm), format!("unwound: {pm}")))?;
    vensure!((rc == 0) == (window == 15 || window == -15) && rc <= 0, "c17:inflateInit2-params", "mz_inflateInit2({window}) returned {rc}");
    if rc == 0 {
        let inp = [0x78u8, 0x9c, 0x03, 0x00, 0x00, 0x00, 0x00, 0x01];
        let mut out = [0u8; 16];
        s.next_in = inp.as_ptr();
        s.avail_in = inp.len() as c_uint;
        s.next_out = out.as_mut_ptr();
        s.avail_out = out.len() as c_uint;
        // SAFETY: live buffers
        let r = guard(|| unsafe { mz_inflate(&mut s, flush) }).map_err(|pm| Violation::new(panic_sig("c17:mz_inflate", &pm), format!("unwound: {pm}")))?;
        if !(0..=4).contains(&flush) {
            vensure!(r < 0, "c17:inflate-flush-param", "mz_inflate(flush {flush}) returned {r}");
        }
        // SAFETY: initialised stream
        unsafe { mz_inflateEnd(&mut s) };
    }
    cx.evals(2);
    cx.class(if legal { "params:legal" } else { "params:illegal" });
    if !legal {
        cx.nontrivial();
    }
    Ok(())
}

unsafe extern "C" fn my_alloc(_: *mut c_void, a: usize, b: usize) -> *mut c_void {
    libc::malloc(a * b)
}
unsafe extern "C" fn my_free(_: *mut c_void, p: *mut c_void) {
    libc::free(p)
}

pub fn misuse_name(kind: u8) -> &'static str {
    [
        "deflate:null-stream", "inflate:null-stream", "deflateInit:null-stream", "inflateInit:null-stream", "deflateEnd:null-stream", "inflateEnd:null-stream", "deflateReset:null-stream", "deflate:null-next_in", "deflate:null-next_out", "inflate:null-next_in",
        "inflate:null-next_out", "compress2:null-dest_len", "uncompress:null-dest_len", "deflate-on-inflate-stream", "inflate-on-deflate-stream", "deflate:ended-stream", "inflate:ended-stream", "deflateInit:custom-allocators", "inflateInit:custom-allocators", "tdefl_compress:null-compressor",
        "tdefl_compress:null-size-pointers", "tdefl_compress:null-buffers", "tdefl_mem_to_mem:null-out", "tdefl_mem_to_heap:null-len", "tinfl_mem_to_mem:null-buffers-len0", "tinfl_mem_to_heap:null-src-len0", "tinfl_decompress:null-buffers-len0",
    ][kind as usize % N_MISUSE as usize]
}

fn c_misuse(kind: u8, cx: &mut Ctx) -> Check {
    let name = misuse_name(kind);
    let inp = b"misuse probe input misuse probe input";
    let mut out = [0u8; 128];
    let null = std::ptr::null_mut::<mz_stream>();
    let neg = |rc: i32| -> Check {
        vensure!(rc < 0, format!("c17:misuse-not-refused:{name}"), "{name}: returned {rc} (expected a negative error code)");
        Ok(())
    };
    let mk_defl = || -> mz_stream {
        let mut s = mz_stream::default();
        // SAFETY: valid zeroed stream
        unsafe { mz_deflateInit(&mut s, 6) };
        s
    };
    let mk_infl = || -> mz_stream {
        let mut s = mz_stream::default();
        // SAFETY: valid zeroed stream
        unsafe { mz_inflateInit(&mut s) };
        s
    };
    // SAFETY (whole block): every call passes either null or pointers to live objects as a C caller could
    let res: Result<Check, String> = guard(|| unsafe {
        match kind % N_MISUSE {
            0 => neg(mz_deflate(null, 0)),
            1 => neg(mz_inflate(null, 0)),
            2 => neg(mz_deflateInit(null, 6)),
            3 => neg(mz_inflateInit(null)),
            4 => neg(mz_deflateEnd(null)),
            5 => neg(mz_inflateEnd(null)),
            6 => neg(mz_deflateReset(null)),
            7 => {
                let mut s = mk_defl();
                s.next_in = std::ptr::null();
                s.avail_in = 0;
                s.next_out = out.as_mut_ptr();
                s.avail_out = 128;
                let r = mz_deflate(&mut s, 0);
                mz_deflateEnd(&mut s);
                neg(r)
            }
            8 => {
                let mut s = mk_defl();
                s.next_in = inp.as_ptr();
                s.avail_in = inp.len() as c_uint;
                s.next_out = std::ptr::null_mut();
                s.avail_out = 0;
                let r = mz_deflate(&mut s, 4);
                mz_deflateEnd(&mut s);
                neg(r)
            }
            9 => {
                let mut s = mk_infl();
                s.next_in = std::ptr::null();
                s.avail_in = 0;
                s.next_out = out.as_mut_ptr();
                s.avail_out = 128;
                let r = mz_inflate(&mut s, 0);
                mz_inflateEnd(&mut s);
                neg(r)
            }
            10 => {
                let mut s = mk_infl();
                s.next_in = inp.as_ptr();
                s.avail_in = inp.len() as c_uint;
                s.next_out = std::ptr::null_mut();
                s.avail_out = 0;
                let r = mz_inflate(&mut s, 0);
                mz_inflateEnd(&mut s);
                neg(r)
            }
            11 => neg(mz_compress2(out.as_mut_ptr(), std::ptr::null_mut(), inp.as_ptr(), inp.len() as c_ulong, 6)),
            12 => neg(mz_uncompress(out.as_mut_ptr(), std::ptr::null_mut(), inp.as_ptr(), inp.len() as c_ulong)),
            13 => {
                let mut s = mk_infl();
                s.next_in = inp.as_ptr();
                s.avail_in = inp.len() as c_uint;
                s.next_out = out.as_mut_ptr();
                s.avail_out = 128;
                let r = mz_deflate(&mut s, 0);
                let r2 = mz_deflateEnd(&mut s);
                let r3 = mz_deflateReset(&mut s);
                mz_inflateEnd(&mut s);
                neg(r).and(neg(r2)).and(neg(r3))
            }
            14 => {
                let mut s = mk_defl();
                s.next_in = inp.as_ptr();
                s.avail_in = inp.len() as c_uint;
                s.next_out = out.as_mut_ptr();
                s.avail_out = 128;
                let r = mz_inflate(&mut s, 0);
                let r2 = mz_inflateEnd(&mut s);
                mz_deflateEnd(&mut s);
                neg(r).and(neg(r2))
            }
            15 => {
                let mut s = mk_defl();
                mz_deflateEnd(&mut s);
                s.next_in = inp.as_ptr();
                s.avail_in = inp.len() as c_uint;
                s.next_out = out.as_mut_ptr();
                s.avail_out = 128;
                let r = mz_deflate(&mut s, 4);
                let r2 = mz_deflateReset(&mut s);
                neg(r).and(neg(r2))
            }
            16 => {
                let mut s = mk_infl();
                mz_inflateEnd(&mut s);
                s.next_in = inp.as_ptr();
                s.avail_in = inp.len() as c_uint;
                s.next_out = out.as_mut_ptr();
                s.avail_out = 128;
                neg(mz_inflate(&mut s, 0))
            }
            17 => {
                let mut s = mz_stream::default();
                s.zalloc = Some(my_alloc);
                s.zfree = Some(my_free);
                let r = mz_deflateInit(&mut s, 6);
                let mut s2 = mz_stream::default();
                s2.zalloc = Some(my_alloc);
                let r2 = mz_deflateInit2(&mut s2, 6, 8, 15, 9, 0);
                neg(r).and(neg(r2))
            }
            18 => {
                let mut s = mz_stream::default();
                s.zfree = Some(my_free);
                neg(mz_inflateInit(&mut s))
            }
            19 => {
                let mut a = 5usize;
                let mut b = 5usize;
                let st = tdefl_compress(None, inp.as_ptr() as *const c_void, Some(&mut a), out.as_mut_ptr() as *mut c_void, Some(&mut b), tdefl_flush::TDEFL_FINISH) as i32;
                let st2 = tdefl_init(None, None, std::ptr::null_mut(), 0) as i32;
                let st3 = tdefl_compress_buffer(None, inp.as_ptr() as *const c_void, 4, tdefl_flush::TDEFL_NO_FLUSH) as i32;
                tdefl_deallocate(std::ptr::null_mut());
                neg(st).and(neg(st2)).and(neg(st3)).and(if a == 0 && b == 0 { Ok(()) } else { Err(Violation::new(format!("c17:misuse-not-refused:{name}"), "sizes not zeroed".to_string())) })
            }
            20 => {
                // null size pointers: sizes count as 0; a Finish call with no room must not crash
                let c = tdefl_allocate();
                tdefl_init(c.as_mut(), None, std::ptr::null_mut(), 0x1080);
                let st = tdefl_compress(c.as_mut(), inp.as_ptr() as *const c_void, None, out.as_mut_ptr() as *mut c_void, None, tdefl_flush::TDEFL_FINISH) as i32;
                // uninitialised compressor object
                let c2 = tdefl_allocate();
                let mut a = 4usize;
                let mut b = 100usize;
                let st2 = tdefl_compress(c2.as_mut(), inp.as_ptr() as *const c_void, Some(&mut a), out.as_mut_ptr() as *mut c_void, Some(&mut b), tdefl_flush::TDEFL_FINISH) as i32;
                tdefl_deallocate(c);
                tdefl_deallocate(c2);
                let _ = st;
                neg(st2)
            }
            21 => {
                let c = tdefl_allocate();
                tdefl_init(c.as_mut(), None, std::ptr::null_mut(), 0x1080);
                let mut a = 10usize;
                let mut b = 100usize;
                let st = tdefl_compress(c.as_mut(), std::ptr::null(), Some(&mut a), out.as_mut_ptr() as *mut c_void, Some(&mut b), tdefl_flush::TDEFL_FINISH) as i32;
                let mut a2 = 10usize;
                let mut b2 = 100usize;
                let st2 = tdefl_compress(c.as_mut(), inp.as_ptr() as *const c_void, Some(&mut a2), std::ptr::null_mut(), Some(&mut b2), tdefl_flush::TDEFL_FINISH) as i32;
                tdefl_deallocate(c);
                neg(st).and(neg(st2))
            }
            22 => {
                let n = tdefl_compress_mem_to_mem(std::ptr::null_mut(), 100, inp.as_ptr() as *const c_void, inp.len(), 0x1080);
                let z = tdefl_compress_mem_to_output(inp.as_ptr() as *const c_void, inp.len(), None, std::ptr::null_mut(), 0x1080);
                if n == 0 && z == 0 { Ok(()) } else { Err(Violation::new(format!("c17:misuse-not-refused:{name}"), format!("returned {n} / {z}"))) }
            }
            23 => {
                let p = tdefl_compress_mem_to_heap(inp.as_ptr() as *const c_void, inp.len(), std::ptr::null_mut(), 0x1080);
                if p.is_null() { Ok(()) } else { Err(Violation::new(format!("c17:misuse-not-refused:{name}"), "non-null result".to_string())) }
            }
            24 => {
                // null data buffers with length 0: ordinary C usage
                let n1 = tinfl_decompress_mem_to_mem(out.as_mut_ptr() as *mut c_void, 64, std::ptr::null(), 0, 0);
                let n2 = tinfl_decompress_mem_to_mem(std::ptr::null_mut(), 0, [0x03u8, 0x00].as_ptr() as *const c_void, 2, 0);
                let n3 = tinfl_decompress_mem_to_mem(std::ptr::null_mut(), 0, std::ptr::null(), 0, 0);
                // empty input can never be a complete stream; empty stream into an empty buffer is fine
                if n1 == usize::MAX && n2 == 0 && n3 == usize::MAX { Ok(()) } else { Err(Violation::new(format!("c17:misuse-not-refused:{name}"), format!("returned {n1} {n2} {n3}"))) }
            }
            26 => {
                let mut d = tinfl_decompressor::default();
                let mut isz = 0usize;
                let mut osz = 64usize;
                let st = tinfl_decompress(&mut d, std::ptr::null(), &mut isz, out.as_mut_ptr(), out.as_mut_ptr(), &mut osz, TINFL_FLAG_USING_NON_WRAPPING_OUTPUT_BUF);
                let mut d2 = tinfl_decompressor::default();
                let mut isz2 = 2usize;
                let mut osz2 = 0usize;
                let st2 = tinfl_decompress(&mut d2, [0x03u8, 0x00].as_ptr(), &mut isz2, std::ptr::null_mut(), std::ptr::null_mut(), &mut osz2, TINFL_FLAG_USING_NON_WRAPPING_OUTPUT_BUF);
                // nothing to read -> cannot make progress; an empty stream into an empty buffer -> done
                if st == -4 && isz == 0 && osz == 0 && st2 == 0 && osz2 == 0 { Ok(()) } else { Err(Violation::new(format!("c17:misuse-not-refused:{name}"), format!("returned {st} ({isz},{osz}) and {st2} ({isz2},{osz2})"))) }
            }
            _ => {
                let mut len = 9usize;
                let p = tinfl_decompress_mem_to_heap(std::ptr::null(), 0, &mut len, 0);
                if p.is_null() && len == 0 { Ok(()) } else { Err(Violation::new(format!("c17:misuse-not-refused:{name}"), format!("null={} len {len}", p.is_null()))) }
            }
        }
    });
    cx.evals(1);
    cx.class(&format!("misuse:{name}"));
    cx.nontrivial();
    match res {
        Ok(r) => r,
        Err(pm) => vfail!(format!("c17:misuse-unwound:{name}"), "{name}: panic crossed the C boundary: {pm}"),
    }
}
