//! C01: one-shot compress/decompress is lossless for every input and every u8 level, raw and zlib.

use crate::gen::data::{recipe, Recipe};
use crate::oracle::inflate::{inflate as ref_inflate, Opts, Verdict};
use crate::oracle::zlibffi;
use crate::runner::*;
use crate::{vensure, vfail};
use miniz_oxide::deflate::{compress_to_vec, compress_to_vec_zlib};
use miniz_oxide::inflate::{decompress_to_vec, decompress_to_vec_zlib};
use proptest::prelude::*;
use serde::{Deserialize, Serialize};

#[derive(Clone, Debug, Serialize, Deserialize)]
pub struct Case {
    pub data: Recipe,
    pub level: u8,
    pub zlib: bool,
}

pub struct P;

pub fn level_u8() -> BoxedStrategy<u8> {
    prop_oneof![8 => 0u8..=10, 1 => 11u8..=255, 1 => proptest::sample::select(vec![11u8, 12, 127, 128, 254, 255])].boxed()
}

impl Prop for P {
    const ID: &'static str = "C01";
    type Case = Case;
    fn meta() -> Meta {
        Meta {
            level: "exploration",
            rule: "plaintext recipes (random/run/small-alphabet/high-byte/copy-back at threshold distances/text/sparse-repeat segments; sizes concentrated on 0-3, 258, 4096, 31744, 32768, 65535/6, 85196 and a tail) x level 0..=255 x {raw, zlib}; oracle: round trip through the crate AND the independent reference inflater (Valid, same bytes, consumed == length), system zlib as second opinion, levels > 10 byte-identical to level 10. Non-trivial = input >= 3 bytes and the reference trace shows a match, >= 2 blocks, a stored block at level >= 1, or the input exceeds 32 KiB; distinct by case fingerprint",
            assumptions: &["reference inflater implements RFC 1951/1950 (self-checked)"],
            dbg: false,
            simd: false,
            exhaustive: Some("LZ-code-buffer boundary sweep: 136 phases of (code position, flag bit) at which the 64 KiB LZ buffer fills with literal+long-match steps, lazy levels"),
        }
    }
    fn cases(tier: Tier) -> u64 {
        tier.pick(100_000, 500_000)
    }
    fn fixed_cases(tier: Tier) -> Vec<Case> {
        // boundary sweep of the 64 KiB LZ code buffer in the lazy (normal) path: the buffer is filled with
        // steps that each record a literal AND a >= 128 byte match; `prefix` shifts the phase of the
        // code position / flag byte at which the buffer fills (period 8 flag bits x 17 code bytes)
        use crate::gen::data::Seg;
        let mut v = Vec::new();
        let levels: &[u8] = tier.pick(&[6u8, 9][..], &[4u8, 5, 6, 7, 8, 9, 10][..]);
        for prefix in 0..136u16 {
            for &level in levels {
                v.push(Case { data: Recipe { segs: vec![Seg::LazyEdge { records: 17_000, prefix, seed: 11 }], twice: false }, level, zlib: prefix % 2 == 0 });
            }
        }
        v
    }
    fn strategy(tier: Tier) -> BoxedStrategy<Case> {
        let data = match tier {
            Tier::Quick => prop_oneof![7 => recipe(4096, 4), 2 => recipe(100_000, 3), 1 => recipe(300_000, 2), 2 => crate::gen::data::recipe_wrap()].boxed(),
            Tier::Thorough => prop_oneof![6 => recipe(4096, 5), 3 => recipe(100_000, 4), 1 => recipe(1_500_000, 3), 3 => crate::gen::data::recipe_wrap()].boxed(),
        };
        (data, level_u8(), any::<bool>()).prop_map(|(data, level, zlib)| Case { data, level, zlib }).boxed()
    }
    fn check(case: &Case, cx: &mut Ctx) -> Check {
        let x = case.data.expand();
        let (lvl, zl) = (case.level, case.zlib);
        let comp = guard(|| if zl { compress_to_vec_zlib(&x, lvl) } else { compress_to_vec(&x, lvl) }).map_err(|pm| Violation::new(panic_sig("compress_to_vec", &pm), format!("compress_to_vec{}(len {}, level {lvl}) panicked: {pm}", if zl { "_zlib" } else { "" }, x.len())))?;
        let back = guard(|| if zl { decompress_to_vec_zlib(&comp) } else { decompress_to_vec(&comp) }).map_err(|pm| Violation::new(panic_sig("decompress_to_vec", &pm), format!("decompress_to_vec panicked on compressor output: {pm}")))?;
        match back {
            Ok(b) => vensure!(b == x, "c01:roundtrip-differs", "round trip of {} bytes at level {lvl} zlib={zl} returned {} different bytes", x.len(), b.len()),
            Err(e) => vfail!("c01:roundtrip-rejected", "one-shot decompression rejected the compressor's own output: {:?} (input {} bytes, level {lvl}, zlib={zl})", e.status, x.len()),
        }
        let r = ref_inflate(&comp, &Opts::fmt(zl));
        vensure!(r.verdict == Verdict::Valid, "c01:reference-rejects", "reference inflater says {:?} at bit {} for level {lvl} zlib={zl} input {} bytes", r.verdict, r.bit_pos, x.len());
        vensure!(r.out == x, "c01:reference-output-differs", "reference inflater decodes the compressor output to different bytes");
        vensure!(r.consumed == comp.len(), "c01:trailing-bytes", "compressor output is {} bytes but the stream ends after {}", comp.len(), r.consumed);
        if let Some(z) = zlibffi::z_inflate(&comp, if zl { 15 } else { -15 }, 1 << 16, x.len() + 1024) {
            if !(z.ok && z.out == x) {
                // zlib is a second opinion only: the reference accepted, so record the disagreement
                cx.class("oracle_disagreement:zlib-rejects-what-reference-accepts");
            }
        }
        if lvl > 10 {
            let c10 = guard(|| if zl { compress_to_vec_zlib(&x, 10) } else { compress_to_vec(&x, 10) }).map_err(|pm| Violation::new(panic_sig("compress_to_vec", &pm), format!("panic: {pm}")))?;
            vensure!(c10 == comp, "c01:level>10-not-as-10", "level {lvl} output differs from level 10 output ({} vs {} bytes)", comp.len(), c10.len());
            cx.class("level>10");
        }
        // classification
        let nb = r.blocks.len();
        let matches = r.n_match();
        let stored_fallback = lvl >= 1 && r.blocks.iter().any(|b| b.btype == 0 && b.stored_len > 0);
        if x.len() >= 3 && (matches > 0 || nb >= 2 || stored_fallback || x.len() > 32768) {
            cx.nontrivial();
        }
        cx.class(&format!("level:{:02}", lvl.min(11)));
        cx.class(&format!("blocks:{}", match nb { 0 => "0", 1 => "1", 2..=3 => "2-3", _ => "4+" }));
        for b in &r.blocks {
            cx.class(["blocktype:stored", "blocktype:fixed", "blocktype:dynamic", "?"][b.btype.min(3) as usize]);
        }
        if stored_fallback {
            cx.class("stored-fallback-at-level>=1");
        }
        if x.len() > 32768 {
            cx.class("dictionary-wrapped(>32K)");
        }
        cx.class(&format!("size:{}", match x.len() { 0 => "0", 1..=3 => "1-3", 4..=258 => "4-258", 259..=4096 => "259-4K", 4097..=32768 => "4K-32K", 32769..=85196 => "32K-85196", _ => ">85196" }));
        cx.class(&format!("maxdist:{}", match r.max_dist() { 0 => "none", 1..=256 => "<=256", 257..=4096 => "<=4K", 4097..=8191 => "<8K", 8192..=32767 => "<32K", _ => "32768" }));
        Ok(())
    }
}
