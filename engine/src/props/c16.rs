//! C16: checksums equal their definitions and compose incrementally; running checksums are right.

use super::common::*;
use crate::gen::config::{config, schedule, Config, Schedule};
use crate::gen::data::{recipe, Recipe};
use crate::oracle::sums::{adler32_ref, crc32_ref, splitmix64};
use crate::runner::*;
use crate::sut::capi;
use crate::sut::dec::*;
use crate::sut::*;
use crate::vensure;
use miniz_oxide::deflate::core::{compress, deflate_flags, CompressorOxide, TDEFLStatus};
use miniz_oxide_c_api::mz_crc32_oxide;
use proptest::prelude::*;
use serde::{Deserialize, Serialize};

#[derive(Clone, Debug, Serialize, Deserialize)]
pub enum Case {
    Sums { len: u32, fill: u8, seed: u64, prefix: u32, cuts: Vec<u32> },
    CompRunning { data: Recipe, cfg: Config, sched: Schedule, force_flag: bool },
    DecRunning { src: Src, sched: DecSched, ring: Option<(u8, u32, u64)>, compute_flag: bool },
    CStream { data: Recipe, level: i8, zlib: bool, steps: Vec<(u32, u32, u8)>, in_chunks: Vec<u32>, outs: Vec<u32> },
}

pub struct P;

/// a byte string whose Adler-32 is (t2 << 16) | t1: zeros (each adds 1 to the upper half), then
/// 0xFF bytes and one remainder byte that bring the lower half to t1
fn adler_prefix(t1: u32, t2: u32) -> Vec<u8> {
    const M: u32 = 65521;
    let q = (t1 + M - 1) % M;
    let mut body = vec![0xffu8; (q / 255) as usize];
    if q % 255 != 0 {
        body.push((q % 255) as u8);
    }
    let b = adler32_ref(1, &body) >> 16;
    let k = (t2 + M - b % M) % M;
    let mut v = vec![0u8; k as usize];
    v.extend_from_slice(&body);
    assert_eq!(adler32_ref(1, &v), (t2 << 16) | t1, "harness: adler_prefix construction");
    v
}

fn len_strategy(max: u32) -> BoxedStrategy<u32> {
    prop_oneof![4 => 0u32..=70, 3 => proptest::sample::select(vec![5550u32, 5551, 5552, 5553, 5554, 11103, 11104, 11105, 65535, 65536, 65537, 15, 16, 17, 31, 32, 33, 63, 64, 65, 127, 128, 129]), 2 => 0u32..=6000, 1 => 0u32..=max].boxed()
}

impl Prop for P {
    const ID: &'static str = "C16";
    type Case = Case;
    fn meta() -> Meta {
        Meta {
            level: "exploration",
            rule: "buffers of lengths 0..70, the SIMD lane sizes +-1, 5552+-2, 2*5552+-1, 65535..65537 and a tail to 300 KB with contents random / all 0xFF / all 0, split into 1..6 pieces at arbitrary points (incl. empty pieces), start value = checksum of an arbitrary prefix; mz_adler32_oxide, mz_crc32_oxide, mz_adler32, mz_crc32 chained over the pieces must equal the definitional checksum of the whole (null pointer => init value); run in the scalar build, the debug-assertion build and a build with the `simd` feature. Running values: CompressorOxide::adler32() after every call == Adler-32 of the input consumed so far (zlib compressors from every constructor incl. hand-composed flag words, raw ones with the compute flag, and raw-born ones switched to zlib); DecompressorOxide::adler32() == Adler-32 of the output so far (zlib mode, flat and ring); mz_stream.adler after every mz_deflate / mz_inflate call. Non-trivial = length >= 5553 with >= 2 pieces, or a SIMD-tail length (not a multiple of 16/32/64), or a running-value case with >= 2 calls; distinct by case fingerprint",
            assumptions: &["adler32_ref / crc32_ref are the definitions (known-answer tested, compared with zlib in the self-check)", "mz_stream.adler after mz_inflate: equals the Adler-32 of the plaintext prefix of length total_out when the call left output space unused; otherwise of some prefix of length in [total_out, total_out + 32768] (the wrapper decodes into its window ahead of delivery)"],
            dbg: true,
            simd: true,
            exhaustive: None,
        }
    }
    fn cases(tier: Tier) -> u64 {
        tier.pick(60_000, 500_000)
    }
    fn strategy(tier: Tier) -> BoxedStrategy<Case> {
        let sums = (len_strategy(tier.pick(300_000, 2_000_000)), prop_oneof![Just(0u8), Just(1u8), Just(2u8)], any::<u64>(), 0u32..=7000, proptest::collection::vec(any::<u32>(), 0..6)).prop_map(|(len, fill, seed, prefix, cuts)| Case::Sums { len, fill, seed, prefix, cuts });
        let comp = (prop_oneof![12 => recipe(20_000, 3), 1 => recipe(70_000, 2)], config(), schedule(6), any::<bool>()).prop_map(|(data, cfg, sched, force_flag)| Case::CompRunning { data, cfg, sched, force_flag });
        let ring = prop_oneof![2 => Just(None), 2 => (15u8..=16, any::<u32>(), any::<u64>()).prop_map(Some)];
        let dec = (prop_oneof![4 => valid_src(false), 1 => valid_src(true)], dec_sched(), ring, any::<bool>()).prop_map(|(src, sched, ring, compute_flag)| Case::DecRunning { src, sched, ring, compute_flag });
        let cs = (recipe(20_000, 3), -1i8..=10, any::<bool>(), proptest::collection::vec((prop_oneof![0u32..=3, 1u32..=3000], prop_oneof![1u32..=5, 1u32..=3000], proptest::sample::select(vec![0u8, 0, 0, 1, 2, 3])), 0..8), proptest::collection::vec(prop_oneof![0u32..=3, 1u32..=500, 1u32..=20000], 0..8), proptest::collection::vec(prop_oneof![1u32..=4, 1u32..=500, Just(1u32 << 16)], 1..4)).prop_map(|(data, level, zlib, steps, in_chunks, outs)| Case::CStream { data, level, zlib, steps, in_chunks, outs });
        prop_oneof![5 => sums, 2 => comp, 2 => dec, 2 => cs].boxed()
    }
    fn check(case: &Case, cx: &mut Ctx) -> Check {
        match case {
            Case::Sums { len, fill, seed, prefix, cuts } => {
                let n = *len as usize;
                let mut s = *seed;
                let buf: Vec<u8> = match fill {
                    0 => (0..n).map(|_| splitmix64(&mut s) as u8).collect(),
                    1 => vec![0xff; n],
                    _ => vec![0; n],
                };
                // one case in four: a prefix whose Adler-32 is a special running value (0, a zero half,
                // both halves at their maximum) - legal starting values like any other
                let pre: Vec<u8> = if *prefix % 4 == 3 {
                    let (t1, t2) = [(0u32, 0u32), (0, 1 + (*seed % 65520) as u32), (1 + (*seed % 65520) as u32, 0), (65520, 65520)][(*prefix as usize / 4) % 4];
                    cx.class(&format!("sums:special-start:{}", ["zero", "s1=0", "s2=0", "both-max"][(*prefix as usize / 4) % 4]));
                    adler_prefix(t1, t2)
                } else {
                    (0..*prefix as usize % 7001).map(|i| if *fill == 1 { 0xff } else { (i as u64 ^ seed) as u8 }).collect()
                };
                let mut cs: Vec<usize> = cuts.iter().map(|&c| c as usize % (n + 1)).collect();
                cs.sort();
                cs.push(n);
                let a0 = adler32_ref(1, &pre);
                let c0 = crc32_ref(0, &pre);
                let want_a = adler32_ref(a0, &buf);
                let want_c = crc32_ref(c0, &buf);
                let (mut a1, mut a2, mut c1, mut c2) = (a0, a0, c0, c0);
                let mut p = 0;
                for &c in &cs {
                    let piece = &buf[p..c];
                    a1 = miniz_oxide::mz_adler32_oxide(a1, piece);
                    a2 = capi::c_adler32(a2, Some(piece));
                    c1 = mz_crc32_oxide(c1, piece);
                    c2 = capi::c_crc32(c2, Some(piece));
                    p = c;
                }
                let sig = |f: &str| format!("c16:{f}-differs-from-definition");
                vensure!(a1 == want_a, sig("mz_adler32_oxide"), "mz_adler32_oxide over {} pieces of a {n}-byte buffer (fill {fill}) from start {a0:#x}: {a1:#010x}, definition {want_a:#010x}", cs.len());
                vensure!(a2 == want_a, sig("mz_adler32"), "mz_adler32: {a2:#010x}, definition {want_a:#010x} (len {n})");
                vensure!(c1 == want_c, sig("mz_crc32_oxide"), "mz_crc32_oxide: {c1:#010x}, definition {want_c:#010x} (len {n}, {} pieces)", cs.len());
                vensure!(c2 == want_c, sig("mz_crc32"), "mz_crc32: {c2:#010x}, definition {want_c:#010x} (len {n})");
                // whole-buffer from the initial values too
                vensure!(miniz_oxide::mz_adler32_oxide(1, &buf) == adler32_ref(1, &buf), sig("mz_adler32_oxide"), "single pass from 1 over {n} bytes differs");
                vensure!(capi::c_adler32(a0, None) == 1 && capi::c_crc32(c0, None) == 0, "c16:null-pointer", "null pointer must give the init value: adler {:#x} crc {:#x}", capi::c_adler32(a0, None), capi::c_crc32(c0, None));
                if (n >= 5553 && cs.len() >= 2) || (n % 16 != 0 && n > 16) {
                    cx.nontrivial();
                }
                cx.class(&format!("sums:len:{}", match n { 0..=15 => "0-15", 16..=70 => "16-70", 71..=5551 => "71-5551", 5552..=5554 => "5552-5554", 5555..=65534 => "5555-65534", 65535..=65537 => "65535-65537", _ => ">65537" }));
                cx.class(&format!("sums:fill:{fill}"));
                cx.class(&format!("sums:pieces:{}", cs.len()));
                Ok(())
            }
            Case::CompRunning { data, cfg, sched, force_flag } => {
                let x = data.expand();
                let mut c = if *force_flag { CompressorOxide::new((cfg.make().flags() as u32) | deflate_flags::TDEFL_COMPUTE_ADLER32) } else { cfg.make() };
                let tracks = *force_flag || cfg.is_zlib();
                if !tracks {
                    // a raw compressor without the flag does not track; switched to zlib before any
                    // data it has to
                    c = cfg.make_born_raw_then_zlib();
                    cx.class("comp-running:born-raw-switched-to-zlib");
                }
                let mut pos = 0usize;
                let mut calls = 0;
                let mut it = sched.steps.iter();
                loop {
                    let (take, osz, fl) = match it.next() {
                        Some(s) => ((s.in_take as usize).min(x.len() - pos), s.out_size.max(1) as usize, if s.flush == 4 { 0 } else { s.flush }),
                        None => (x.len() - pos, sched.finish_out[calls % sched.finish_out.len()].max(1) as usize, 4),
                    };
                    let mut ob = vec![0u8; osz];
                    let (st, ci, _co) = guard(|| compress(&mut c, &x[pos..pos + take], &mut ob, crate::gen::config::tdefl_flush(fl))).map_err(|pm| Violation::new(panic_sig("compress", &pm), format!("panic: {pm}")))?;
                    pos += ci;
                    calls += 1;
                    let want = adler32_ref(1, &x[..pos]);
                    vensure!(c.adler32() == want, "c16:compressor-running-adler", "after call #{calls} ({pos} bytes consumed) CompressorOxide::adler32() = {:#010x}, Adler-32 of the consumed input = {want:#010x} ({cfg:?})", c.adler32());
                    cx.evals(1);
                    if st == TDEFLStatus::Done || st == TDEFLStatus::BadParam || st == TDEFLStatus::PutBufFailed || calls > x.len() + 20_000 {
                        break;
                    }
                }
                if calls >= 2 {
                    cx.nontrivial();
                }
                cx.class("comp-running");
                Ok(())
            }
            Case::DecRunning { src, sched, ring, compute_flag } => {
                let Some(t) = realize(src, cx) else { return Ok(()) };
                if !t.valid() {
                    return Ok(());
                }
                let (s, plain) = if t.zlib {
                    (t.bytes.clone(), t.plain().to_vec())
                } else {
                    let mut s = vec![0x78, 0x9c];
                    s.extend_from_slice(&t.bytes);
                    s.extend_from_slice(&adler32_ref(1, t.plain()).to_be_bytes());
                    (s, t.plain().to_vec())
                };
                let mode = match ring {
                    None => BufMode::Flat { cap: plain.len() + 1 },
                    Some((bits, start, fill)) => BufMode::Ring { bits: *bits, start: *start, fill_seed: *fill },
                };
                let flags = TINFL_FLAG_PARSE_ZLIB_HEADER | if *compute_flag { TINFL_FLAG_COMPUTE_ADLER32 } else { 0 };
                let mut d = DecompressorOxide::new();
                let mut ncalls = 0;
                let r = drive(&mut d, &s, &DriveOpts { flags, mode, sched, canary: false, max_calls: None, announce: true, flat_start: 0, probe_full_ring: false }, |d, info| {
                    ncalls += 1;
                    // None until the header has been read
                    if let Some(a) = d.adler32() {
                        let want = adler32_ref(1, info.out_so_far);
                        if a != want {
                            return Err(Violation::new("c16:decoder-running-adler", format!("after call #{ncalls} ({} bytes produced) DecompressorOxide::adler32() = {a:#010x}, Adler-32 of the output so far = {want:#010x}", info.total_out)));
                        }
                    } else if info.total_out > 0 {
                        return Err(Violation::new("c16:decoder-running-adler", format!("adler32() is None after {} bytes were produced in zlib mode", info.total_out)));
                    }
                    Ok(())
                })?;
                vensure!(r.status == TINFLStatus::Done, "c16:decoder-run", "status {}", status_name(r.status));
                // the same value through the C shim's getter, on a decompressor object from the shim's allocator
                if ring.is_none() && plain.len() <= 200_000 {
                    let total = plain.len() + 1;
                    let mut out = vec![0u8; total];
                    // SAFETY: alloc/init/free as documented; pointers into live buffers of the stated sizes
                    unsafe {
                        let dp = capi::tinfl_decompressor_alloc();
                        capi::tinfl_init(dp);
                        let (mut ipos, mut opos, mut ci, mut n) = (0usize, 0usize, 0usize, 0usize);
                        loop {
                            let take = if ci < sched.chunks.len() { (sched.chunks[ci] as usize).min(s.len() - ipos) } else { s.len() - ipos };
                            ci += 1;
                            let fl = flags | TINFL_FLAG_USING_NON_WRAPPING_OUTPUT_BUF | if ipos + take < s.len() { TINFL_FLAG_HAS_MORE_INPUT } else { 0 };
                            let (mut isz, mut osz) = (take, total - opos);
                            let st = miniz_oxide_c_api::tinfl_decompress(dp, s[ipos..].as_ptr(), &mut isz, out.as_mut_ptr(), out.as_mut_ptr().add(opos), &mut osz, fl);
                            ipos += isz;
                            opos += osz;
                            n += 1;
                            let got = capi::tinfl_get_adler32(dp) as u32;
                            let want = adler32_ref(1, &out[..opos]);
                            // 0 until the header has been read
                            if !(got == want || (got == 0 && opos == 0)) {
                                capi::tinfl_decompressor_free(dp);
                                return Err(Violation::new("c16:tinfl_get_adler32", format!("after tinfl_decompress call #{n} ({opos} bytes produced, status {st}) tinfl_get_adler32 = {got:#010x}, Adler-32 of the output so far = {want:#010x}")));
                            }
                            if st != 1 || n > s.len() + 16 {
                                break;
                            }
                        }
                        capi::tinfl_decompressor_free(dp);
                        cx.evals(n as u64);
                    }
                    cx.class("dec-running:tinfl_get_adler32");
                }
                cx.evals(r.calls);
                if r.calls >= 2 {
                    cx.nontrivial();
                }
                cx.class("dec-running");
                Ok(())
            }
            Case::CStream { data, level, zlib, steps, in_chunks, outs } => {
                let x = data.expand();
                let st: Vec<(u32, u32, i32)> = steps.iter().map(|&(a, b, f)| (a, b, f as i32)).collect();
                let run = capi::mz_deflate_run(&x, *level as i32, if *zlib { 15 } else { -15 }, 0, &st, 300)?;
                vensure!(run.status == 1, "c16:mz_deflate-run", "mz_deflate loop ended with {}", run.status);
                let mut tin = 0usize;
                for (i, &(_rc, _ai, din, _ao, _dout, adler)) in run.per_call.iter().enumerate() {
                    tin += din;
                    let want = adler32_ref(1, &x[..tin]) as u64;
                    vensure!(adler == want, "c16:mz_stream.adler-after-deflate", "after mz_deflate call #{i} (total_in {tin}) stream.adler = {adler:#x}, Adler-32 of total_in bytes = {want:#x}");
                }
                // inflate side (zlib only: raw streams have no checksum)
                if *zlib {
                    let r = capi::mz_inflate_run(&run.out, true, in_chunks, outs, x.len() + 64)?;
                    vensure!(r.status == 1 && r.out == x, "c16:mz_inflate-run", "mz_inflate loop: status {} out {} (want {})", r.status, r.out.len(), x.len());
                    let mut tout = 0usize;
                    for (i, &(_rc, _ai, _din, ao, dout, adler)) in r.per_call.iter().enumerate() {
                        tout += dout;
                        if adler == 0 && tout == 0 {
                            continue; // header not read yet
                        }
                        if dout < ao {
                            let want = adler32_ref(1, &x[..tout]) as u64;
                            vensure!(adler == want, "c16:mz_stream.adler-after-inflate", "after mz_inflate call #{i} (total_out {tout}, output space left) stream.adler = {adler:#x}, Adler-32 of the delivered plaintext = {want:#x}");
                        } else {
                            // output full: the wrapper may have decoded ahead into its window
                            let hi = (tout + 32768).min(x.len());
                            let mut a = adler32_ref(1, &x[..tout]);
                            let mut ok = a as u64 == adler;
                            for k in tout..hi {
                                if ok {
                                    break;
                                }
                                a = adler32_ref(a, &x[k..k + 1]);
                                ok = a as u64 == adler;
                            }
                            vensure!(ok, "c16:mz_stream.adler-after-inflate", "after mz_inflate call #{i} (total_out {tout}, output full) stream.adler = {adler:#x} is not the Adler-32 of any plaintext prefix of length {tout}..={hi}");
                        }
                    }
                    cx.evals(r.calls);
                }
                cx.evals(run.calls);
                if run.calls >= 2 {
                    cx.nontrivial();
                }
                cx.class("c-stream-adler");
                Ok(())
            }
        }
    }
}
