//! C06: end of stream is detected exactly; bytes after it are never consumed.

use super::common::*;
use crate::runner::*;
use crate::sut::capi;
use crate::sut::dec::*;
use crate::sut::*;
use crate::vensure;
use miniz_oxide::inflate::stream::{inflate, InflateState};
use miniz_oxide::{MZFlush, MZStatus};
use proptest::prelude::*;
use serde::{Deserialize, Serialize};

#[derive(Clone, Debug, Serialize, Deserialize)]
pub struct Case {
    pub src: Src,
    pub tail: Vec<u8>,
    pub sched: DecSched,
    pub ring_start: u32,
    pub fill_seed: u64,
    pub out_sizes: Vec<u32>,
}

pub struct P;

fn tail() -> BoxedStrategy<Vec<u8>> {
    prop_oneof![
        1 => Just(vec![]),
        4 => proptest::collection::vec(any::<u8>(), 1..=64),
        1 => proptest::collection::vec(Just(0u8), 1..=20),
        1 => proptest::collection::vec(Just(0xffu8), 1..=20),
        // bytes that look like another stream
        1 => Just(vec![0x78, 0x9c, 0x03, 0x00, 0x00, 0x00, 0x00, 0x01]),
        1 => Just(vec![0x01, 0x00, 0x00, 0xff, 0xff, 0x03, 0x00]),
    ]
    .boxed()
}

impl Prop for P {
    const ID: &'static str = "C06";
    type Case = Case;
    fn meta() -> Meta {
        Meta {
            level: "exploration",
            rule: "valid streams (grammar: final blocks ending on each of the 8 bit offsets, stored/fixed/dynamic/empty last blocks; crate compressor; system zlib; files) followed by 0..64 unrelated trailing bytes (random, zeros, 0xFF, bytes that look like another header), decoded through the flat decoder, 32 KiB ring, inflate() (3 driver loops), mz_inflate (total_in/next_in) and tinfl_decompress under generated chunkings and output budgets; zlib streams additionally with the checksum comparison switched off (IGNORE_ADLER32 / ZLibIgnoreChecksum) and under a chunking cut 1..5 bytes before the end of the stream, then byte by byte; oracle: sum of consumed == exact encoded length from the grammar's bit writer / reference inflater, output exact, later calls consume nothing. Non-trivial = trailing length >= 1 and the chunk in which the stream ended extended >= 1 byte past its end; distinct by case fingerprint",
            assumptions: &["encoded length = ceil(bits/8) of header+deflate data (+4 for zlib), computed independently by the grammar's bit writer and the reference inflater (they are compared in the self-check)"],
            dbg: false,
            simd: false,
            exhaustive: None,
        }
    }
    fn cases(tier: Tier) -> u64 {
        tier.pick(400_000, 4_000_000)
    }
    fn strategy(_tier: Tier) -> BoxedStrategy<Case> {
        (prop_oneof![9 => valid_src(false), 1 => valid_src(true)], tail(), dec_sched(), any::<u32>(), any::<u64>(), proptest::collection::vec(prop_oneof![1u32..=4, 1u32..=300, Just(1u32 << 16)], 1..4))
            .prop_map(|(src, tail, sched, ring_start, fill_seed, out_sizes)| Case { src, tail, sched, ring_start, fill_seed, out_sizes })
            .boxed()
    }
    fn check(case: &Case, cx: &mut Ctx) -> Check {
        let Some(t) = realize(&case.src, cx) else { return Ok(()) };
        if !t.valid() {
            cx.class("skipped:not-valid");
            return Ok(());
        }
        let plain = t.plain().to_vec();
        let n = plain.len();
        let enc = t.enc_len();
        let mut data = t.bytes.clone();
        data.extend_from_slice(&case.tail);
        let zf = zflags(t.zlib);
        cx.class(&format!("final-bit-offset:{}", t.r.blocks.last().map(|b| b.end_bit & 7).unwrap_or(0)));
        cx.class(&format!("last-block-type:{}", t.r.blocks.last().map(|b| b.btype).unwrap_or(9)));
        cx.class(&format!("source:{}", t.source));

        // how far past the end did the chunk that contained the end reach?
        let mut end = 0usize;
        let mut ahead = data.len() - enc;
        for &c in &case.sched.chunks {
            end = (end + c as usize).min(data.len());
            if end >= enc {
                ahead = end - enc;
                break;
            }
        }
        if end < enc {
            ahead = data.len() - enc;
        }
        cx.class(&format!("read-ahead-available:{}", match ahead { 0 => "0", 1 => "1", 2..=3 => "2-3", 4..=13 => "4-13", _ => ">=14" }));
        if !case.tail.is_empty() && ahead >= 1 {
            cx.nontrivial();
        }

        // zlib streams are also decoded with the checksum comparison switched off, and under a second
        // chunking that cuts the input 1..5 bytes before the end of the stream (inside or right in
        // front of the trailer), then byte by byte
        let back = 1 + (case.fill_seed >> 8) as usize % 5;
        let mut cut_chunks = vec![enc.saturating_sub(back) as u32];
        cut_chunks.extend(std::iter::repeat(1u32).take(((case.fill_seed >> 12) % 7) as usize));
        let cut_sched = DecSched { chunks: cut_chunks, budgets: case.sched.budgets.clone() };
        let mut runs: Vec<(&str, BufMode, u32, &DecSched)> = vec![("flat", BufMode::Flat { cap: n + 1 }, zf, &case.sched), ("ring32k", BufMode::Ring { bits: 15, start: case.ring_start, fill_seed: case.fill_seed }, zf, &case.sched)];
        if t.zlib {
            cx.class("zlib:also-ignore-checksum+trailer-cut");
            runs.push(("flat, ignore-adler", BufMode::Flat { cap: n + 1 }, zf | TINFL_FLAG_IGNORE_ADLER32, &case.sched));
            runs.push(("flat, trailer cut", BufMode::Flat { cap: n + 1 }, zf, &cut_sched));
            runs.push(("flat, ignore-adler, trailer cut", BufMode::Flat { cap: n + 1 }, zf | TINFL_FLAG_IGNORE_ADLER32, &cut_sched));
            runs.push(("ring32k, ignore-adler, trailer cut", BufMode::Ring { bits: 15, start: case.ring_start, fill_seed: case.fill_seed }, zf | TINFL_FLAG_IGNORE_ADLER32, &cut_sched));
        }
        if !t.zlib {
            // raw stream with "compute the Adler-32 anyway" (documented as allowed): there is still no trailer
            cx.class("raw:also-compute-adler-flag");
            runs.push(("flat, raw + COMPUTE_ADLER32", BufMode::Flat { cap: n + 1 }, zf | TINFL_FLAG_COMPUTE_ADLER32, &case.sched));
            runs.push(("ring32k, raw + COMPUTE_ADLER32", BufMode::Ring { bits: 15, start: case.ring_start, fill_seed: case.fill_seed }, zf | TINFL_FLAG_COMPUTE_ADLER32, &cut_sched));
        }
        for (what, mode, zf, sched) in runs {
            let mut d = DecompressorOxide::new();
            let r = drive(&mut d, &data, &DriveOpts { flags: zf, mode, sched, canary: false, max_calls: None, announce: true, flat_start: 0, probe_full_ring: false }, plain_hook)?;
            vensure!(r.status == TINFLStatus::Done && r.out == plain, "c06:not-decoded", "[{what}] status {} out {} (want {n})", status_name(r.status), r.out.len());
            vensure!(r.consumed == enc, format!("c06:consumed-mismatch:{what}"), "[{what}] stream is {enc} bytes long ({} trailing bytes follow) but {} were reported consumed; final block ended at bit offset {}", case.tail.len(), r.consumed, t.r.blocks.last().map(|b| b.end_bit & 7).unwrap_or(0));
            // later calls consume nothing
            let mut buf = vec![0u8; 64];
            let extra = if matches!(mode, BufMode::Flat { .. }) { TINFL_FLAG_USING_NON_WRAPPING_OUTPUT_BUF } else { 0 };
            let (st, c, w) = guard(|| decompress(&mut d, &data[enc..], &mut buf, 0, zf | extra)).map_err(|pm| Violation::new(panic_sig("decompress", &pm), format!("panic after Done: {pm}")))?;
            vensure!(c == 0 && w == 0, "c06:consumes-after-end", "[{what}] call after completion: {} consumed {c} written {w}", status_name(st));
        }
        // one call, everything at once
        let r = flat_oneshot(&data, zf, n)?;
        vensure!(r.status == TINFLStatus::Done && r.consumed == enc && r.out == plain, "c06:consumed-mismatch:oneshot", "[one call] status {} consumed {} (stream {enc} bytes, {} trailing)", status_name(r.status), r.consumed, case.tail.len());
        cx.evals(2);

        // inflate()
        let mut variants = vec![("none", false, fmt_of(t.zlib), &case.sched.chunks), ("none-then-finish", true, fmt_of(t.zlib), &case.sched.chunks)];
        if t.zlib {
            variants.push(("none, ZLibIgnoreChecksum", false, miniz_oxide::DataFormat::ZLibIgnoreChecksum, &case.sched.chunks));
            variants.push(("none, trailer cut", false, miniz_oxide::DataFormat::Zlib, &cut_sched.chunks));
            variants.push(("none, ZLibIgnoreChecksum, trailer cut", false, miniz_oxide::DataFormat::ZLibIgnoreChecksum, &cut_sched.chunks));
            variants.push(("none-then-finish, ZLibIgnoreChecksum, trailer cut", true, miniz_oxide::DataFormat::ZLibIgnoreChecksum, &cut_sched.chunks));
        }
        for (variant, fin, fmt, chunks) in variants {
            let mut st = InflateState::new_boxed(fmt);
            let mut ch = chunks.clone();
            if fin && (ch.is_empty() || ch[0] as usize >= data.len()) {
                if data.len() < 2 {
                    continue;
                }
                ch.insert(0, (data.len() / 2) as u32);
            }
            let r = inflate_loop_driver(&mut st, &data, &ch, &case.out_sizes, MZFlush::None, fin)?;
            vensure!(r.status == Ok(MZStatus::StreamEnd) && r.out == plain, "c06:not-decoded", "[inflate {variant}] status {:?} out {} (want {n})", r.status, r.out.len());
            vensure!(r.consumed == enc, "c06:consumed-mismatch:inflate", "[inflate {variant}] stream is {enc} bytes but {} were reported consumed ({} trailing bytes)", r.consumed, case.tail.len());
            let mut ob = [0u8; 16];
            let res = guard(|| inflate(&mut st, &data[enc..], &mut ob, if fin { MZFlush::Finish } else { MZFlush::None })).map_err(|pm| Violation::new(panic_sig("inflate", &pm), format!("panic after StreamEnd: {pm}")))?;
            vensure!(res.bytes_consumed == 0 && res.bytes_written == 0, "c06:consumes-after-end", "[inflate {variant}] call after StreamEnd: {res:?}");
        }
        cx.evals(2);

        // C API: mz_inflate (total_in / next_in) and tinfl_decompress
        {
            let r = capi::mz_inflate_run_f(&data, t.zlib, &case.sched.chunks, &case.out_sizes, n + 64, case.fill_seed & 1 == 1)?;
            vensure!(r.status == 1 && r.out == plain, "c06:not-decoded", "[mz_inflate] status {} out {} (want {n})", r.status, r.out.len());
            vensure!(r.total_in == enc && r.next_in_advance == enc, "c06:consumed-mismatch:mz_inflate", "[mz_inflate] stream is {enc} bytes; total_in {} next_in advanced {}", r.total_in, r.next_in_advance);
            let (st, cin, cout) = capi::tinfl_decompress_once(&data, zf | TINFL_FLAG_USING_NON_WRAPPING_OUTPUT_BUF, n + 1)?;
            vensure!(st == 0 && cin == enc && cout == n, "c06:consumed-mismatch:tinfl_decompress", "[tinfl_decompress] status {st} in {cin} (stream {enc}) out {cout} (want {n})");
            cx.evals(2);
        }
        Ok(())
    }
}
