pub mod common;
pub mod c01;
pub mod c03;
pub mod c04;
pub mod c10;
pub mod c11;
