pub mod common;
pub mod c03;
