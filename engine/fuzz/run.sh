#!/bin/bash
# usage: run.sh <target> <Cxx> <runs-per-job>   (thorough-tier add-on: coverage-guided libFuzzer campaign)
# Built WITHOUT --cfg fuzzing (DESIGN 2.3): the crate skips the Adler-32 check under cfg(fuzzing).
# Exit 0: nothing found; 1: violation (replay written by the target, VIOLATION line printed); 2: machinery trouble.
target=$1; id=$2; runs=${3:-100000}
here="$(cd "$(dirname "$0")" && pwd)"; root="$(cd "$here/../.." && pwd)"
export MZV_VERIF_DIR="$root" CARGO_NET_OFFLINE=true CARGO_TERM_COLOR=never
cd "$here" || exit 2
[ -f Cargo.lock ] || cp ../Cargo.lock .
log=$(mktemp)
if ! RUSTFLAGS="-Cpasses=sancov-module -Cllvm-args=-sanitizer-coverage-level=4 -Cllvm-args=-sanitizer-coverage-inline-8bit-counters -Cllvm-args=-sanitizer-coverage-pc-table -Cllvm-args=-sanitizer-coverage-trace-compares -Cdebug-assertions -Zsanitizer=address -Ccodegen-units=1" \
     cargo +nightly build --release --offline --target x86_64-unknown-linux-gnu --bin "$target" >"$log" 2>&1; then
  echo "FUZZ BUILD FAILED"; tail -n 30 "$log"; rm -f "$log"; exit 2
fi
rm -f "$log"
bin="$here/target/x86_64-unknown-linux-gnu/release/$target"
seed=${VERIF_SEED:-20260923}; [ "$seed" = "0" ] && seed=1
work="$here/../run/fuzz-$target-$$"; rm -rf "$work"; mkdir -p "$work/seeded" "$work/empty" "$work/art"
"$here/../target/release/mzv" gencorpus "$target" "$work/seeded" 400 "$seed" || exit 2
ncpu=$(nproc); half=$(( ncpu / 2 )); [ $half -lt 1 ] && half=1
t0=$(date +%s)
( cd "$work/seeded" && ASAN_OPTIONS=detect_leaks=0 "$bin" -runs="$runs" -seed="$seed" -max_len=4096 -len_control=0 -timeout=120 -report_slow_units=120 -rss_limit_mb=6000 -print_final_stats=1 -jobs=$half -workers=$half -artifact_prefix="$work/art/" . >/dev/null 2>&1 ) &
( cd "$work/empty" && ASAN_OPTIONS=detect_leaks=0 "$bin" -runs="$runs" -seed="$((seed+1))" -max_len=2048 -timeout=120 -report_slow_units=120 -rss_limit_mb=6000 -print_final_stats=1 -jobs=$half -workers=$half -artifact_prefix="$work/art/" . >/dev/null 2>&1 ) &
wait
t1=$(date +%s)
execs=$(cat "$work"/*/fuzz-*.log 2>/dev/null | grep -a "stat::number_of_executed_units" | awk '{s+=$2} END {print s+0}')
cov=$(cat "$work"/*/fuzz-*.log 2>/dev/null | grep -a -oE "cov: [0-9]+" | awk '{if ($2>m) m=$2} END {print m+0}')
corp=$(ls "$work/seeded" "$work/empty" 2>/dev/null | grep -vc "fuzz-.*log")
viol=$(cat "$work"/*/fuzz-*.log 2>/dev/null | grep -a "^FUZZ-VIOLATION" | sort -u)
other=$(ls "$work/art" 2>/dev/null | grep -c "^crash-")
inconclusive=$(ls "$work/art" 2>/dev/null | grep -vc "^crash-")
python3 - "$root/evidence/$id.json" "$target" "$execs" "$cov" "$corp" "$((t1-t0))" "$runs" <<'PY'
import json,sys
p,target,execs,cov,corp,secs,runs=sys.argv[1:8]
try:
    e=json.load(open(p))
    e['coverage']['libfuzzer']={'target':target,'executions':int(execs),'edge_coverage':int(cov),'corpus_files':int(corp),'wall_s':int(secs),'runs_per_job':int(runs),'note':'two campaigns (seeded corpus from the stream grammar / empty corpus), built with sancov+ASan+debug assertions and WITHOUT --cfg fuzzing; the property oracle runs inside the target'}
    e['coverage']['evaluations']=e['coverage'].get('evaluations',0)+int(execs)
    json.dump(e,open(p,'w'),indent=1)
except Exception as ex:
    print('could not merge fuzz stats into evidence:',ex)
PY
echo "libFuzzer $target: $execs executions, edge coverage $cov, corpus $corp files, $((t1-t0))s, $inconclusive slow/timeout/oom artifacts (not violations)"
rc=0
if [ -n "$viol" ]; then
  echo "$viol" | while read -r line; do r=$(echo "$line" | sed -n 's/.*replay=\([^ ]*\).*/\1/p'); echo "violation (libFuzzer): $line" | cut -c1-300; echo "VIOLATION property=$id replay=$r"; done
  rc=1
elif [ "$other" -gt 0 ]; then
  # crash without a property verdict (e.g. ASan report): keep the artifact as the replay
  mkdir -p "$root/replays/$id/found"; for f in "$work"/art/crash-*; do cp "$f" "$root/replays/$id/found/libfuzzer-$(basename "$f")"; echo "VIOLATION property=$id replay=$root/replays/$id/found/libfuzzer-$(basename "$f")"; done
  rc=1
fi
rm -rf "$work"
exit $rc
