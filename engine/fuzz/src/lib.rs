//! Shared glue for the libFuzzer targets: bytes -> property case, oracle inside the target,
//! violation => replay file + abort (so libFuzzer keeps the input as an artifact).
use mzv::props::common::{AnyInput, Src};
use mzv::runner::{Ctx, Prop, ReplayFile, Tier};
use mzv::sut::dec::DecSched;

pub fn split(data: &[u8]) -> Option<(u8, u8, &[u8])> {
    if data.len() < 2 {
        return None;
    }
    Some((data[0], data[1], &data[2..]))
}

pub fn input_of(flags: u8, body: &[u8]) -> AnyInput {
    AnyInput { src: Src::Bytes { bytes: body.to_vec(), zlib: flags & 1 != 0 }, muts: vec![] }
}

/// a schedule derived deterministically from one byte
pub fn sched_of(b: u8, n: usize) -> DecSched {
    let mut s = b as u64 * 0x9E37_79B9 + 12345;
    let mut next = || {
        s ^= s << 13;
        s ^= s >> 7;
        s ^= s << 17;
        s
    };
    let nch = (b & 7) as usize;
    let nbu = ((b >> 3) & 7) as usize;
    let chunks = (0..nch).map(|_| (next() % (n as u64 + 2)) as u32 % 64).collect();
    let budgets = (0..nbu * 3).map(|_| match next() % 4 { 0 => (next() % 4) as u32, 1 => (next() % 40) as u32, 2 => 250 + (next() % 20) as u32, _ => u32::MAX }).collect();
    DecSched { chunks, budgets }
}

pub fn run<P: Prop>(case: P::Case) {
    mzv::runner::install_quiet_panic_hook();
    let mut cx = Ctx::new(Tier::Thorough, "fuzz", mzv::runner::load_known(P::ID));
    let r = mzv::runner::guard(|| P::check(&case, &mut cx));
    let v = match r {
        Ok(Ok(())) => return,
        Ok(Err(v)) => v,
        Err(pm) => mzv::runner::Violation::new(mzv::runner::panic_sig("fuzz", &pm), format!("panic escaped: {pm}")),
    };
    if cx.is_known(&v.sig) {
        return;
    }
    let rf = ReplayFile { property: P::ID.to_string(), profile: "rel".into(), kind: "violation".into(), sig: v.sig.clone(), msg: v.msg.clone(), case: serde_json::to_value(&case).unwrap() };
    let dir = mzv::runner::verif_dir().join("replays").join(P::ID).join("found");
    let _ = std::fs::create_dir_all(&dir);
    let path = dir.join(format!("fuzz-{:016x}.json", mzv::runner::fingerprint(&case)));
    let _ = std::fs::write(&path, serde_json::to_vec_pretty(&rf).unwrap());
    eprintln!("FUZZ-VIOLATION property={} replay={} sig={} msg={}", P::ID, path.display(), v.sig, v.msg);
    std::process::abort();
}
