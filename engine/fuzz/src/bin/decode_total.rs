#![no_main]
// C05: histories on one decoder object; the first bytes encode the operations.
use libfuzzer_sys::fuzz_target;
use mzv::props::c05::{Case, Op, P};
fuzz_target!(|data: &[u8]| {
    if data.len() < 4 {
        return;
    }
    let nops = (data[0] % 12) as usize + 1;
    let hdr = 1 + nops * 4;
    if data.len() < hdr + 1 {
        return;
    }
    let mut ops = Vec::new();
    let mut last_flags = 4u32;
    for i in 0..nops {
        let b = &data[1 + i * 4..1 + i * 4 + 4];
        let op = match b[0] % 16 {
            0 => Op::Init,
            1 => Op::CloneSwap,
            2 => Op::SerdeRmp,
            3 => Op::Seek { sel: u16::from_le_bytes([b[1], b[2]]) },
            4 => Op::SwitchInput,
            _ => {
                // keep geometry/flags sticky most of the time so that suspended states get resumed
                let flags = if b[0] & 0x80 != 0 { (b[1] as u32) | ((b[2] as u32 & 1) << 8) } else { last_flags };
                last_flags = flags;
                Op::Call { take: match b[0] >> 4 & 3 { 0 => b[3] as u32 % 4, 1 => b[3] as u32, _ => u32::MAX }, flags, len_sel: b[2] % 16, pos_sel: b[3] as u32 * 257 + b[1] as u32, budget: if b[2] & 0x40 != 0 { Some(b[3] as u32 * 2) } else { None } }
            }
        };
        ops.push(op);
    }
    let body = &data[hdr..];
    let case = Case::History { input: mzv_fuzz::input_of(data[0] >> 7, body), other: body.iter().rev().take(32).copied().collect(), ops };
    mzv_fuzz::run::<P>(case);
});
