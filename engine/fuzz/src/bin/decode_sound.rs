#![no_main]
// C04: completion reports are sound, for arbitrary bytes under a derived schedule (flat + ring).
use libfuzzer_sys::fuzz_target;
use mzv::props::c04::{Case, P};
fuzz_target!(|data: &[u8]| {
    let Some((flags, sb, body)) = mzv_fuzz::split(data) else { return };
    let case = Case::Any { input: mzv_fuzz::input_of(flags, body), sched: mzv_fuzz::sched_of(sb, body.len()), ring_bits: [15u8, 15, 10, 8, 4, 16, 0, 12][(flags >> 1) as usize & 7], ring_start: (flags as u32) << 7, fill_seed: (flags >> 4) as u64 };
    mzv_fuzz::run::<P>(case);
});
