#![no_main]
// C13: inflate() protocol relation over a call history encoded in the first bytes.
use libfuzzer_sys::fuzz_target;
use mzv::props::c13::{Call, Case, P};
fuzz_target!(|data: &[u8]| {
    if data.len() < 3 {
        return;
    }
    let ncalls = (data[0] % 24) as usize + 1;
    let hdr = 1 + ncalls * 2;
    if data.len() < hdr + 1 {
        return;
    }
    let mut calls = Vec::new();
    for i in 0..ncalls {
        let (a, b) = (data[1 + 2 * i], data[2 + 2 * i]);
        let take = match a & 3 { 0 => 0, 1 => (a >> 2) as u32 % 9, 2 => (a >> 2) as u32 * 7, _ => u32::MAX };
        let out = match b & 3 { 0 => 0, 1 => (b >> 2) as u32 % 9, 2 => (b >> 2) as u32 * 9, _ => 1 << 16 };
        let flush = [0u8, 0, 0, 2, 4, 4, 3, 1][(a as usize >> 5) & 7];
        calls.push(Call { take, out, flush });
    }
    let body = &data[hdr..];
    let case = Case::Random { input: mzv_fuzz::input_of(data[0] >> 7, body), tail: vec![], calls };
    mzv_fuzz::run::<P>(case);
});
