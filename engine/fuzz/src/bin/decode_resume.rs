#![no_main]
// C07: (output, status, consumed) independent of input partition / output budgets.
use libfuzzer_sys::fuzz_target;
use mzv::props::c07::{Case, P};
fuzz_target!(|data: &[u8]| {
    let Some((flags, sb, body)) = mzv_fuzz::split(data) else { return };
    let ring = match (flags >> 1) & 3 { 0 => None, 1 => Some((15u8, (flags as u32) << 5, flags as u64)), 2 => Some((8 + (flags >> 4) % 9, 0u32, 0u64)), _ => Some(((flags >> 3) % 17, 77u32, 9u64)) };
    let scheds = vec![mzv_fuzz::sched_of(sb, body.len()), mzv_fuzz::sched_of(sb.wrapping_mul(31).wrapping_add(7), body.len())];
    let case = if body.len() <= 96 && flags & 0x80 != 0 { Case::Cuts { input: mzv_fuzz::input_of(flags, body), ring } } else { Case::Random { input: mzv_fuzz::input_of(flags, body), ring, scheds } };
    mzv_fuzz::run::<P>(case);
});
