#![no_main]
// C02: the input bytes are decoded into (configuration, plaintext recipe, call schedule); the
// oracle (three drivers, reference inflater round trip, per-call invariants) runs inside the target.
use libfuzzer_sys::fuzz_target;
use mzv::gen::config::{Config, Ctor, Schedule, Step};
use mzv::gen::data::{Recipe, Seg};
use mzv::props::c02::{Case, P};

struct R<'a>(&'a [u8], usize);
impl R<'_> {
    fn u8(&mut self) -> u8 {
        let v = self.0.get(self.1).copied().unwrap_or(0);
        self.1 += 1;
        v
    }
    fn u16(&mut self) -> u32 {
        self.u8() as u32 | (self.u8() as u32) << 8
    }
    fn size(&mut self) -> u32 {
        // sizes concentrated around the block-cutting thresholds
        let k = self.u8();
        let d = self.u8() as u32;
        match k % 24 {
            0 => d % 8,
            1 | 12 | 13 => d,
            2 => 258 + d % 8,
            3 => 4090 + d % 16,
            4 => 31_740 + d % 16,
            5 => 32_760 + d % 16,
            6 => 58_240 + d % 24,
            7 => 65_530 + d % 16,
            8 => 85_190 + d % 16,
            9 | 14 | 15 => d * 40,
            10 => d * 300,
            _ => d * 4,
        }
    }
}

fuzz_target!(|data: &[u8]| {
    if data.len() < 8 {
        return;
    }
    let mut r = R(data, 0);
    let c = r.u8();
    let cfg = Config { ctor: [Ctor::Flags, Ctor::Hand, Ctor::Params, Ctor::Default][(c & 3) as usize], level: ((c >> 2) % 12) as i32 - 1, strategy: (r.u8() % 6) as i32 - 0, zlib: c & 0x40 != 0, wbits: 8 + r.u8() % 8, hand: c >> 6 };
    let nseg = 1 + (r.u8() % 5) as usize;
    let mut segs = Vec::new();
    for _ in 0..nseg {
        let k = r.u8();
        let seed = r.u16() as u64 * 65537 + k as u64;
        let n = r.size();
        segs.push(match k % 7 {
            0 => Seg::Random { n, seed },
            1 => Seg::Run { byte: k, n },
            2 => Seg::Alphabet { k: 1 + k % 7, n, seed },
            3 => Seg::High { n, seed },
            4 => Seg::CopyBack { dist: [1u32, 2, 3, 257, 258, 4096, 8191, 8192, 32767, 32768, 32769][(k as usize / 7) % 11], len: n.min(70_000) },
            5 => Seg::Text { n, seed },
            _ => Seg::Sparse { n, gap: 8 + (k as u16) * 2, rep: 3 + k % 4, seed },
        });
    }
    let nstep = (r.u8() % 7) as usize;
    let mut steps = Vec::new();
    for _ in 0..nstep {
        let a = r.u8();
        let in_take = match a & 3 { 0 => (a >> 2) as u32 % 4, 1 => r.size(), 2 => u32::MAX, _ => (a >> 2) as u32 };
        let b = r.u8();
        let out_size = match b & 3 { 0 => 1 + (b >> 2) as u32 % 8, 1 => 1 + (b >> 2) as u32 * 16, 2 => 85_190 + (b >> 2) as u32 % 12, _ => 1 << 20 };
        steps.push(Step { in_take, out_size, flush: [0u8, 0, 0, 1, 2, 3, 5, 7][(r.u8() % 8) as usize] });
    }
    let f = r.u8();
    let finish_out = vec![match f & 3 { 0 => 1 + (f >> 2) as u32 % 8, 1 => 64 + (f >> 2) as u32 * 50, 2 => 85_196, _ => 1 << 20 }];
    let case = Case { data: Recipe { segs, twice: c & 0x80 != 0 }, cfg, sched: Schedule { steps, finish_out } };
    mzv_fuzz::run::<P>(case);
});
