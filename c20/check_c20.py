#!/usr/bin/env python3
"""C20: configurations as the generated input, the compiler as the oracle (DESIGN 6/C20).
Enumerates the whole feature lattice (32 subsets) x targets, builds miniz_oxide with -F unsafe_code,
builds the no-allocator and trait probes, scans every .rs file for the token `unsafe`.
usage: check_c20.py <quick|thorough> | --replay <file>"""
import json, os, subprocess, sys, time, itertools, re, hashlib
from concurrent.futures import ThreadPoolExecutor

V = os.environ.get('MZV_VERIF_DIR') or os.path.dirname(os.path.dirname(os.path.abspath(__file__)))
FEATS = ['with-alloc', 'std', 'serde', 'block-boundary', 'simd']
HERE = f'{V}/c20'
ENV = dict(os.environ, CARGO_NET_OFFLINE='true', CARGO_TERM_COLOR='never')

def subsets():
    for r in range(len(FEATS) + 1):
        for c in itertools.combinations(FEATS, r):
            yield list(c)

def build(slot, target, feats):
    t0 = time.time()
    p = subprocess.run([f'{HERE}/probe_features.sh', str(slot), target, ','.join(feats)], capture_output=True, text=True, env=ENV)
    log = (p.stdout + p.stderr)[-4000:]
    unsafe_hit = 'unsafe' in log and ('forbid' in log or 'unsafe_code' in log)
    return {'kind': 'build', 'target': target, 'features': feats, 'ok': p.returncode == 0, 'unsafe_diagnostic': unsafe_hit, 'secs': round(time.time() - t0, 2), 'log_tail': '' if p.returncode == 0 else log}

def probe(name, cmd, cwd):
    p = subprocess.run(cmd, capture_output=True, text=True, env=ENV, cwd=cwd)
    log = (p.stdout + p.stderr)[-4000:]
    return {'kind': 'probe', 'name': name, 'ok': p.returncode == 0, 'log_tail': '' if p.returncode == 0 else log}

def scan_unsafe(path):
    """token scan: `unsafe` outside comments, strings, chars. Returns list of (line, text)."""
    src = open(path, encoding='utf-8', errors='replace').read()
    out = []
    i, n, line = 0, len(src), 1
    depth = 0
    while i < n:
        c = src[i]
        if c == '\n':
            line += 1; i += 1; continue
        if src.startswith('//', i):
            j = src.find('\n', i)
            i = n if j < 0 else j
            continue
        if src.startswith('/*', i):
            depth = 1; i += 2
            while i < n and depth:
                if src.startswith('/*', i): depth += 1; i += 2
                elif src.startswith('*/', i): depth -= 1; i += 2
                else:
                    if src[i] == '\n': line += 1
                    i += 1
            continue
        m = re.match(r'b?r(#*)"', src[i:])
        if m and (i == 0 or not (src[i-1].isalnum() or src[i-1] == '_')):
            end = '"' + m.group(1)
            j = src.find(end, i + len(m.group(0)))
            j = n if j < 0 else j + len(end)
            line += src.count('\n', i, j); i = j; continue
        if c == '"':
            j = i + 1
            while j < n and src[j] != '"':
                if src[j] == '\\': j += 1
                if j < n and src[j] == '\n': line += 1
                j += 1
            i = j + 1; continue
        if c == "'":
            # char literal or lifetime
            m = re.match(r"'(\\.[^']*|[^'\\])'", src[i:])
            if m: i += len(m.group(0)); continue
            i += 1; continue
        m = re.match(r'[A-Za-z_][A-Za-z0-9_]*', src[i:])
        if m:
            if m.group(0) == 'unsafe':
                ls = src.rfind('\n', 0, i) + 1
                le = src.find('\n', i)
                out.append((line, src[ls:le if le >= 0 else n].strip()))
            i += len(m.group(0)); continue
        i += 1
    return out

def main():
    if len(sys.argv) >= 3 and sys.argv[1] == '--replay':
        r = json.load(open(sys.argv[2]))['case']
        if r['kind'] == 'build':
            res = build(0, r['target'], r['features'])
        elif r['kind'] == 'scan':
            hits = scan_unsafe(r['file'])
            res = {'ok': not hits}
        elif r['name'].startswith('send_sync_clone_static'):
            res = trait_probe(0, r.get('features', ['with-alloc', 'std', 'serde', 'block-boundary']))
        else:
            res = run_probes(only=[])[r['name']]
        if res['ok']:
            print('replay: property held'); return 0
        print(f'VIOLATION property=C20 replay={sys.argv[2]}'); return 1
    tier = sys.argv[1] if len(sys.argv) > 1 else 'quick'
    seed = int(os.environ.get('VERIF_SEED', '20260923'))
    t0 = time.time()
    jobs = [('host', f) for f in subsets()]
    if tier == 'thorough':
        for t in ['i686-unknown-linux-gnu', 'aarch64-unknown-linux-gnu']:
            jobs += [(t, f) for f in subsets()]
        jobs += [('x86_64-unknown-none', f) for f in subsets() if 'std' not in f]
    nslots = 8
    results = []
    def run_slot(slot):
        out = []
        for k, (t, f) in enumerate(jobs):
            if k % nslots == slot:
                out.append(build(slot, t, f))
        return out
    with ThreadPoolExecutor(nslots + 1) as ex:
        futs = [ex.submit(run_slot, s) for s in range(nslots)]
        pf = ex.submit(run_probes)
        for f in futs:
            results += f.result()
        probes = pf.result()
    # lexical scan (covers cfg arms no available target compiles: wasm32, rustc-dep-of-std)
    files = []
    for root, _, fs in os.walk('/repo/miniz_oxide/src'):
        files += [os.path.join(root, f) for f in fs if f.endswith('.rs')]
    files.sort()
    scan_hits = []
    for f in files:
        for (ln, text) in scan_unsafe(f):
            scan_hits.append({'kind': 'scan', 'file': f, 'line': ln, 'text': text})
    lib = open('/repo/miniz_oxide/src/lib.rs').read()
    forbid_attr = '#![forbid(unsafe_code)]' in lib

    violations = []
    for r in results:
        if not r['ok']:
            sig = 'c20:unsafe-code' if r['unsafe_diagnostic'] else ('c20:does-not-build:no-std-no-alloc' if not r['features'] or r['features'] == [] else 'c20:does-not-build')
            violations.append((sig, r, f"miniz_oxide does not build with -F unsafe_code for target {r['target']} features {r['features']}"))
    for name, r in probes.items():
        if not r['ok']:
            violations.append((f'c20:probe:{name}', dict(r, kind='probe'), f'probe {name} failed: ' + ' | '.join(l for l in r['log_tail'].splitlines() if l.startswith('error'))[:300]))
    for h in scan_hits:
        violations.append(('c20:unsafe-token', h, f"`unsafe` at {h['file']}:{h['line']}: {h['text']}"))

    os.makedirs(f'{V}/evidence', exist_ok=True)
    nontrivial = [r for r in results if r['features'] != ['with-alloc'] or r['target'] != 'host']
    ev = {
        'property_id': 'C20', 'tier': tier, 'seed': seed, 'level': 'exploration',
        'coverage': {
            'evaluations': len(results) + len(probes) + len(files),
            'distinct_nontrivial': len({(r['target'], tuple(r['features'])) for r in nontrivial}),
            'rule': 'configurations are the generated input, the compiler/linker the oracle: every one of the 32 subsets of {with-alloc, std, serde, block-boundary, simd} (x 4 targets in the thorough tier: host, i686, aarch64, x86_64-unknown-none via -Zbuild-std) is built with `cargo rustc --lib --no-default-features --features ... -- -F unsafe_code`; a #![no_std] staticlib without global allocator that calls inflate::core::decompress must link against default-features=false; compile-time Send+Sync+Clone+\'static assertions for the public state types, evaluated in each of the 32 feature sets (items that exist only under a feature are asserted under exactly that feature); plus one lexical scan of every .rs file for the token `unsafe` outside comments/strings (the one non-behavioural oracle, for cfg arms no available target compiles). Non-trivial = a (target, feature set) other than the default host build, i.e. at least one cfg-dependent item differs',
            'samples': [{'target': r['target'], 'features': r['features'], 'ok': r['ok'], 'secs': r['secs']} for r in results[:3]] + [{'probe': k, 'ok': v['ok']} for k, v in list(probes.items())[:4]],
            'exhaustive': True,
            'exhaustive_subspace': 'all 32 feature subsets' + (' x {host, i686-unknown-linux-gnu, aarch64-unknown-linux-gnu} + 16 std-less subsets on x86_64-unknown-none' if tier == 'thorough' else ' on the host target'),
            'builds': len(results), 'probes': {k: v['ok'] for k, v in probes.items()},
            'files_scanned': len(files), 'unsafe_tokens_found': len(scan_hits), 'forbid_attribute_present': forbid_attr,
            'targets': sorted({r['target'] for r in results}),
        },
        'assumptions': ['rustc\'s unsafe_code lint (forbid level, applied from the command line to this crate only) is the arbiter of "contains unsafe code"', 'wasm32 and rustc-dep-of-std arms cannot be compiled offline here and are covered by the token scan only'],
        'wall_s': round(time.time() - t0, 2),
        'violations': len(violations),
    }
    json.dump(ev, open(f'{V}/evidence/C20.json', 'w'), indent=1)
    print(f"C20 {tier}: {len(results)} builds, {len(probes)} probes, {len(files)} files scanned, {ev['wall_s']}s")
    if violations:
        os.makedirs(f'{V}/replays/C20/found', exist_ok=True)
        seen = set()
        for sig, case, msg in violations:
            if sig in seen: continue
            seen.add(sig)
            h = hashlib.sha1(json.dumps(case, sort_keys=True).encode()).hexdigest()[:16]
            path = f'{V}/replays/C20/found/{h}.json'
            json.dump({'property': 'C20', 'profile': 'n/a', 'kind': 'violation', 'sig': sig, 'msg': msg, 'case': case}, open(path, 'w'), indent=1)
            print(f'violation sig={sig}: {msg}')
            print(f'VIOLATION property=C20 replay={path}')
        return 1
    return 0

def run_probes(only=None):
    tdir = f'{HERE}/target/probes'
    out = {'no_std_no_alloc_staticlib': probe('no_std_no_alloc_staticlib', ['cargo', 'build', '--offline', '--release', '--target-dir', tdir], f'{HERE}/probe_noalloc')}
    # the trait assertions are evaluated in every feature set (a derive can be feature-conditional)
    def one(args):
        k, f = args
        return trait_probe(k % 4, f)
    with ThreadPoolExecutor(4) as ex:
        for r in ex.map(one, enumerate(only if only is not None else list(subsets()))):
            out[r['name']] = r
    return out

def trait_probe(slot, feats):
    name = 'send_sync_clone_static[' + ','.join(feats) + ']'
    cmd = ['cargo', 'check', '--offline', '--no-default-features', '--target-dir', f'{HERE}/target/traits{slot}']
    if feats:
        cmd += ['--features', ','.join(feats)]
    r = probe(name, cmd, f'{HERE}/probe_traits')
    r['features'] = feats
    return r

if __name__ == '__main__':
    sys.exit(main())
