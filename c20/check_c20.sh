#!/bin/bash
# C20 entry: ./check C20 <quick|thorough>  |  ./check C20 --replay <file>
cd "$(dirname "$0")" || exit 2
if [ "${1:-quick}" = "--replay" ]; then exec python3 check_c20.py --replay "$2"; fi
exec python3 check_c20.py "${1:-quick}"
