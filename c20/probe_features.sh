#!/bin/bash
# usage: probe_features.sh <slot> <target-or-host> <features-comma-list-or-empty>
slot=$1; tgt=$2; feats=$3
export CARGO_NET_OFFLINE=true CARGO_TERM_COLOR=never
args=(rustc --offline --manifest-path /repo/miniz_oxide/Cargo.toml --lib --no-default-features --target-dir "$(dirname "$0")/target/slot$slot")
[ -n "$feats" ] && args+=(--features "$feats")
if [ "$tgt" != "host" ]; then
  exec cargo +nightly "${args[@]}" -Zbuild-std=core,alloc --target "$tgt" -- -F unsafe_code
fi
exec cargo "${args[@]}" -- -F unsafe_code
