#!/bin/bash
# usage: probe_features.sh <slot> <target-or-host> <features-comma-list-or-empty>
slot=$1; tgt=$2; feats=$3
export CARGO_NET_OFFLINE=true CARGO_TERM_COLOR=never
args=(rustc --offline --manifest-path /repo/miniz_oxide/Cargo.toml --lib --no-default-features --target-dir "$(dirname "$0")/target/slot$slot")
[ -n "$feats" ] && args+=(--features "$feats")
if [ "$tgt" != "host" ]; then
  # no pre-built standard library for these targets: build it from rust-src; the feature sets that
  # contain `std` (and serde/std with it) need the whole of std, the others only core + alloc
  case ",$feats," in
    *,std,*) bs="-Zbuild-std" ;;
    *) bs="-Zbuild-std=core,alloc" ;;
  esac
  exec cargo +nightly "${args[@]}" $bs --target "$tgt" -- -F unsafe_code
fi
exec cargo "${args[@]}" -- -F unsafe_code
