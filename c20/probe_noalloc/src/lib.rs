//! C20 probe: a no_std static library WITHOUT a global allocator that uses the decompressor.
//! If miniz_oxide (default features off) needed `alloc`, rustc would refuse to link this
//! ("no global memory allocator found but one is required").
#![no_std]

use miniz_oxide::inflate::core::{decompress, inflate_flags, DecompressorOxide};

#[panic_handler]
fn panic(_: &core::panic::PanicInfo) -> ! {
    loop {}
}

#[no_mangle]
pub extern "C" fn probe_decompress(inp: *const u8, n: usize, out: *mut u8, m: usize) -> i32 {
    // SAFETY: caller contract of this probe (it is never called; only linked)
    let (i, o) = unsafe { (core::slice::from_raw_parts(inp, n), core::slice::from_raw_parts_mut(out, m)) };
    let mut d = DecompressorOxide::new();
    let (st, _, _) = decompress(&mut d, i, o, 0, inflate_flags::TINFL_FLAG_USING_NON_WRAPPING_OUTPUT_BUF);
    st as i32
}
