//! C20 probe: the public state types must stay Send + Sync + Clone + 'static.
use miniz_oxide::deflate::core::CompressorOxide;
use miniz_oxide::inflate::core::{BlockBoundaryState, DecompressorOxide};
use miniz_oxide::inflate::stream::{FullReset, InflateState, MinReset, ZeroReset};
use miniz_oxide::inflate::TINFLStatus;
use miniz_oxide::{DataFormat, MZError, MZFlush, MZStatus, StreamResult};

fn ok<T: Send + Sync + Clone + 'static>() {}
fn send_sync<T: Send + Sync + 'static>() {}

pub fn assertions() {
    ok::<DecompressorOxide>();
    ok::<InflateState>();
    ok::<CompressorOxide>();
    ok::<BlockBoundaryState>();
    ok::<StreamResult>();
    ok::<TINFLStatus>();
    ok::<MZStatus>();
    ok::<MZError>();
    ok::<MZFlush>();
    ok::<DataFormat>();
    send_sync::<MinReset>();
    send_sync::<ZeroReset>();
    send_sync::<FullReset>();
    send_sync::<miniz_oxide::inflate::DecompressError>();
    send_sync::<Box<InflateState>>();
}
