//! C20 probe: the public state types must stay Send + Sync + Clone + 'static, in every feature set
//! (the probe's features forward to the crate's; items that exist only under a feature are asserted
//! under exactly that feature).
#![no_std]
#[cfg(feature = "with-alloc")]
extern crate alloc;

#[cfg(feature = "with-alloc")]
use miniz_oxide::deflate::core::CompressorOxide;
#[cfg(feature = "block-boundary")]
use miniz_oxide::inflate::core::BlockBoundaryState;
use miniz_oxide::inflate::core::DecompressorOxide;
use miniz_oxide::inflate::stream::{FullReset, InflateState, MinReset, ZeroReset};
use miniz_oxide::inflate::TINFLStatus;
use miniz_oxide::{DataFormat, MZError, MZFlush, MZStatus, StreamResult};

fn ok<T: Send + Sync + Clone + 'static>() {}
fn send_sync<T: Send + Sync + 'static>() {}

pub fn assertions() {
    ok::<DecompressorOxide>();
    ok::<InflateState>();
    #[cfg(feature = "with-alloc")]
    ok::<CompressorOxide>();
    #[cfg(feature = "block-boundary")]
    ok::<BlockBoundaryState>();
    ok::<StreamResult>();
    ok::<TINFLStatus>();
    ok::<MZStatus>();
    ok::<MZError>();
    ok::<MZFlush>();
    ok::<DataFormat>();
    send_sync::<MinReset>();
    send_sync::<ZeroReset>();
    send_sync::<FullReset>();
    #[cfg(feature = "with-alloc")]
    send_sync::<miniz_oxide::inflate::DecompressError>();
    #[cfg(feature = "with-alloc")]
    send_sync::<alloc::boxed::Box<InflateState>>();
    #[cfg(feature = "with-alloc")]
    {
        ok::<miniz_oxide::deflate::core::TDEFLStatus>();
        ok::<miniz_oxide::deflate::core::TDEFLFlush>();
        ok::<miniz_oxide::deflate::core::CompressionStrategy>();
        ok::<miniz_oxide::deflate::CompressionLevel>();
    }
}
